package porcupine

// Annotation stands in for the type declared in porcupine's visualization.go,
// which is left out of the simulation build (it embeds HTML assets); the
// checker only stores values of this type for the visualiser.
type Annotation struct {
	ClientId        int
	Tag             string
	Start           int64
	End             int64
	Description     string
	Details         string
	TextColor       string
	BackgroundColor string
}
