// Code added to package runtime through `go build -overlay` by /verif (never
// written into GOROOT). It turns the Go scheduler into a seeded one: see
// /verif/DESIGN.md section 2.1.

package runtime

import _ "unsafe"

// simSchedState is the state of the simulation PRNG; 0 = simulation off.
var simSchedState uint64

// simSchedHash folds every scheduling decision (number of runnable bubble
// goroutines, index chosen); it identifies the interleaving of a run.
var simSchedHash uint64
var simSchedPicks uint64
var simYields uint64

// simYieldNum/simYieldDen: probability of yielding before a lock acquisition.
var simYieldNum, simYieldDen uint64

//go:linkname simSchedSeed
func simSchedSeed(s uint64) {
	simSchedState = s
	simSchedHash = 1469598103934665603
	simSchedPicks = 0
	simYields = 0
	simOps = 0
	if s != 0 {
		forcePreemptNS = 1 << 62
	} else {
		forcePreemptNS = 10 * 1000 * 1000
	}
}

//go:linkname simSchedStats
func simSchedStats() (hash, picks, yields uint64) {
	return simSchedHash, simSchedPicks, simYields
}

//go:linkname simSetYield
func simSetYield(num, den uint64) { simYieldNum, simYieldDen = num, den }

// simStallDen/simStallMaxNS: "execution takes time" fault. Virtual time stands
// still while goroutines run, so no instant ever passes between two statements
// of one goroutine unless it blocks; with probability 1/simStallDen a schedule
// point (lock/unlock) also sleeps for a PRNG-chosen duration up to
// simStallMaxNS - the goroutine was descheduled, the machine was slow.
var simStallDen, simStallMaxNS uint64
var simStalls uint64

//go:linkname simSetStall
func simSetStall(den, maxNS uint64) { simStallDen, simStallMaxNS = den, maxNS; simStalls = 0 }

//go:linkname simStallCount
func simStallCount() uint64 { return simStalls }

//go:nosplit
func simRand() uint64 {
	x := simSchedState
	x ^= x >> 12
	x ^= x << 25
	x ^= x >> 27
	if x == 0 {
		x = 0x2545F4914F6CDD1D
	}
	simSchedState = x
	return x * 0x2545F4914F6CDD1D
}

func simTimerRand() uint32 {
	if simSchedState == 0 {
		return cheaprand()
	}
	return uint32(simRand() >> 32)
}

//go:nosplit
func simSelectRandn(n uint32) uint32 {
	if simSchedState == 0 {
		return cheaprandn(n)
	}
	return uint32((simRand() >> 33) % uint64(n))
}

// simSchedPick moves runnext into the local run queue and rotates a
// PRNG-chosen runnable goroutine to the head. Only the owner P calls it.
func simSchedPick(pp *p) {
	if next := pp.runnext; next != 0 && pp.runnext.cas(next, 0) {
		runqput(pp, next.ptr(), false)
	}
	h := pp.runqhead
	t := pp.runqtail
	n := t - h
	if n > 1 {
		l := uint32(len(pp.runq))
		// Goroutines outside any bubble (runtime workers, the test
		// harness) run first, in FIFO order, without consuming randomness.
		for i := uint32(0); i < n; i++ {
			if pp.runq[(h+i)%l].ptr().bubble == nil {
				if i != 0 {
					g0 := pp.runq[(h+i)%l]
					for j := i; j > 0; j-- {
						pp.runq[(h+j)%l] = pp.runq[(h+j-1)%l]
					}
					pp.runq[h%l] = g0
				}
				return
			}
		}
		k := uint32((simRand() >> 33) % uint64(n))
		if k != 0 {
			pp.runq[h%l], pp.runq[(h+k)%l] = pp.runq[(h+k)%l], pp.runq[h%l]
		}
		simSchedPicks++
		simSchedHash = (simSchedHash ^ (uint64(n)<<16 | uint64(k))) * 1099511628211
	}
}

//go:linkname sync_simOn internal/sync.runtime_simOn
func sync_simOn() bool { return simSchedState != 0 }

//go:linkname sync_simYield internal/sync.runtime_simYield
func sync_simYield() {
	if simSchedState == 0 {
		return
	}
	gp := getg()
	if gp.bubble == nil || gp.m.curg != gp || gp.m.locks != 0 || gp.m.preemptoff != "" {
		return
	}
	// Deterministic stand-in for time-slice preemption: a goroutine that keeps
	// taking locks without ever blocking (a spin that waits for another
	// goroutine, e.g. yamux's Stream.Read on a session that is shutting down)
	// is descheduled every simSliceOps lock operations.
	simOps++
	if simOps%simSliceOps == 0 {
		simYields++
		if simStallDen != 0 {
			// with the execution-time fault on, the goroutine a spinner waits
			// for may be asleep: spinning must cost virtual time too, or the
			// clock (which only moves when nothing is runnable) never would
			timeSleep(1000)
			return
		}
		goyield()
		return
	}
	if simYieldNum != 0 && (simRand()>>33)%simYieldDen < simYieldNum {
		simYields++
		goyield()
	}
	if simStallDen != 0 && simStallMaxNS != 0 && (simRand()>>33)%simStallDen == 0 {
		simStalls++
		timeSleep(int64(1 + (simRand()>>33)%simStallMaxNS))
	}
}

const simSliceOps = 2048

var simOps uint64

// simSetTag/simGetTag: a per-goroutine integer inherited by child goroutines
// (like pprof labels); simnet uses it as "the simulated host this code runs on".
//
//go:linkname simSetTag
func simSetTag(t uint64) { getg().simTag = t }

//go:linkname simGetTag
func simGetTag() uint64 { return getg().simTag }

// simWallDeadline (real monotonic clock, ns) bounds a run from inside the
// runtime: when every goroutine of the bubble is blocked for good (a deadlock
// of the system under test) while timers keep firing without waking anybody,
// the synctest root goroutine advances virtual time in a loop that never
// enters the scheduler, so an ordinary real-time watchdog timer would starve.
var simWallDeadline int64
var simIdleLoops uint64

//go:linkname simSetWallLimit
func simSetWallLimit(ns int64) {
	if ns == 0 {
		simWallDeadline = 0
		return
	}
	simWallDeadline = nanotime() + ns
}

// simVirtualCap: no run simulates more than a few hours; a bubble whose clock
// passes this instant (2001-01-01; bubbles start at 2000-01-01) is running away
// (everything blocked for good, only far-apart timers left).
const simVirtualCap = 978307200 * 1e9

func simIdleLoopCheck(next int64) {
	if simWallDeadline == 0 {
		return
	}
	if next > simVirtualCap {
		simWallDeadline = 0
		throw("VERIF-WATCHDOG: virtual time ran away (nothing runnable, only timers left)")
	}
	simIdleLoops++
	if simIdleLoops&1023 == 0 && nanotime() > simWallDeadline {
		simWallDeadline = 0
		throw("VERIF-WATCHDOG: the run exceeded its wall limit while the bubble was idle (virtual time advancing, nothing runnable)")
	}
}
