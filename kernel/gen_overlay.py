#!/usr/bin/env python3
"""Generate patched copies of a few go1.26.8 runtime files (never touching GOROOT) and
return overlay entries.  Every patch is anchored on an exact source string; a toolchain
that differs makes this exit 2 (tool trouble, never a violation)."""
import os, sys, json, hashlib

GOROOT = "/opt/veriftools/go1.26.8"
HERE = os.path.dirname(os.path.abspath(__file__))

PATCHES = {
 "src/runtime/proc.go": [
  ("const forcePreemptNS = 10 * 1000 * 1000 // 10ms",
   "var forcePreemptNS int64 = 10 * 1000 * 1000 // 10ms (verif: var)"),
  ("\tif randomizeScheduler && next && randn(2) == 0 {",
   "\tif randomizeScheduler && simSchedState == 0 && next && randn(2) == 0 {"),
  ("\t\tnewg.bubble = callergp.bubble\n", "\t\tnewg.bubble = callergp.bubble\n\t\tnewg.simTag = callergp.simTag\n"),
  ("\tgp.bubble = nil\n\tgp.fipsOnlyBypass = false\n", "\tgp.bubble = nil\n\tgp.simTag = 0\n\tgp.fipsOnlyBypass = false\n"),
  ("func runqget(pp *p) (gp *g, inheritTime bool) {\n",
   "func runqget(pp *p) (gp *g, inheritTime bool) {\n\tif simSchedState != 0 {\n\t\tsimSchedPick(pp)\n\t}\n"),
 ],
 "src/runtime/runtime2.go": [
  ("func (w waitReason) isIdleInSynctest() bool {\n\treturn isIdleInSynctest[w]\n}\n",
   "func (w waitReason) isIdleInSynctest() bool {\n\t// verif: in simulation every lock holder lives in the bubble, so a goroutine\n\t// parked on a mutex is durably blocked; otherwise virtual time could not\n\t// advance while a lock holder waits for a timer (yamux holds a lock across a\n\t// timed send).\n\tif simSchedState != 0 && (w == waitReasonSyncMutexLock || w == waitReasonSyncRWMutexRLock || w == waitReasonSyncRWMutexLock) {\n\t\treturn true\n\t}\n\treturn isIdleInSynctest[w]\n}\n"),
  ("\tbubble  *synctestBubble\n", "\tbubble  *synctestBubble\n\tsimTag  uint64 // verif: simulated host of this goroutine, inherited by children\n"),
 ],
 "src/runtime/synctest.go": [
  ("\t\tbubble.now = next\n\t}\n", "\t\tsimIdleLoopCheck(next)\n\t\tbubble.now = next\n\t}\n"),
 ],
 "src/runtime/select.go": [
  ("\t\tj := cheaprandn(uint32(norder + 1))", "\t\tj := simSelectRandn(uint32(norder + 1))"),
 ],
 "src/runtime/rand.go": [
  ("func rand() uint64 {\n",
   "func rand() uint64 {\n\tif simSchedState != 0 && getg().bubble != nil {\n\t\treturn simRand()\n\t}\n"),
 ],
 "src/runtime/alg.go": [
  ("\t\thashkey[i] = uintptr(bootstrapRand())", "\t\thashkey[i] = uintptr(0x9e3779b97f4a7c15 * uint64(i+1))"),
  ("\t\tkey[i] = bootstrapRand()", "\t\tkey[i] = 0x9e3779b97f4a7c15 * uint64(i+1)"),
 ],
 "src/runtime/time.go": [
  ("\t\t\tt.rand = cheaprand()", "\t\t\tt.rand = simTimerRand()"),
 ],
 "src/internal/sync/mutex.go": [
  ("func (m *Mutex) Lock() {\n", "func (m *Mutex) Lock() {\n\truntime_simYield()\n"),
  ("\t\tm.unlockSlow(new)\n\t}\n}\n", "\t\tm.unlockSlow(new)\n\t}\n\truntime_simYield() // verif: schedule point right after releasing a lock\n}\n"),
  ("\t\t\tstarving = starving || runtime_nanotime()-waitStartTime > starvationThresholdNs",
   "\t\t\tstarving = starving || (!runtime_simOn() && runtime_nanotime()-waitStartTime > starvationThresholdNs)"),
 ],
 "src/internal/sync/runtime.go": [
  ("//go:linkname fatal\nfunc fatal(string)\n",
   "//go:linkname fatal\nfunc fatal(string)\n\n// verif: simulation hooks implemented in runtime/simsched.go.\n//\n//go:linkname runtime_simYield\nfunc runtime_simYield()\n\n//go:linkname runtime_simOn\nfunc runtime_simOn() bool\n"),
 ],
 "src/sync/rwmutex.go": [
  ("func (rw *RWMutex) RLock() {\n", "func (rw *RWMutex) RLock() {\n\tisync_simYield()\n"),
  ("\t\trw.rUnlockSlow(r)\n\t}\n\tif race.Enabled {\n\t\trace.Enable()\n\t}\n}\n", "\t\trw.rUnlockSlow(r)\n\t}\n\tif race.Enabled {\n\t\trace.Enable()\n\t}\n\tisync_simYield()\n}\n"),
  ("func (r *rlocker) Unlock() { (*RWMutex)(r).RUnlock() }\n",
   "func (r *rlocker) Unlock() { (*RWMutex)(r).RUnlock() }\n\n//go:linkname isync_simYield internal/sync.runtime_simYield\nfunc isync_simYield()\n"),
 ],
}

def generate(outdir):
    os.makedirs(outdir, exist_ok=True)
    replace = {}
    for rel, subs in PATCHES.items():
        src = os.path.join(GOROOT, rel)
        text = open(src).read()
        for old, new in subs:
            if text.count(old) != 1:
                sys.stderr.write("verif: runtime patch anchor not found exactly once in %s: %r\n" % (rel, old[:60]))
                sys.exit(2)
            text = text.replace(old, new)
        dst = os.path.join(outdir, rel.replace("/", "__"))
        if not os.path.exists(dst) or open(dst).read() != text:
            open(dst, "w").write(text)
        replace[src] = dst
    replace[os.path.join(GOROOT, "src/runtime/simsched.go")] = os.path.join(HERE, "simsched.go")
    return replace

if __name__ == "__main__":
    print(json.dumps(generate(sys.argv[1]), indent=1))
