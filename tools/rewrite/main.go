// verif-rewrite regenerates, from /repo's current working tree, copies of the piko source
// files that touch the OS network with those calls redirected to verifsim/simnet. The copies
// are mapped over the originals with `go build -overlay`; /repo is never written.
//
// Rules (syntactic, import-aware):
//   net.Listen|ListenUDP|ListenPacket|Dial|DialTimeout|LookupIP|ResolveUDPAddr|ResolveTCPAddr -> simnet.<same>
//   type net.Dialer                                                -> simnet.Dialer
//   tls.Dial                                                       -> simnet.TLSDial
//   gorilla websocket.Dialer{...} literals gain NetDialContext: simnet.DialContext
//
// usage: verif-rewrite <repo> <outdir>   (prints JSON {"replace":{orig:copy}, "sites":{rule:count}, "files":[...]})
package main

import (
	"bytes"
	"encoding/json"
	"fmt"
	"go/ast"
	"go/parser"
	"go/printer"
	"go/token"
	"os"
	"path/filepath"
	"strconv"
	"strings"
)

const simnetPath = "github.com/andydunstall/piko/verifsim/simnet"

var netFuncs = map[string]bool{"Listen": true, "ListenUDP": true, "ListenPacket": true, "Dial": true, "DialTimeout": true, "LookupIP": true, "ResolveUDPAddr": true, "ResolveTCPAddr": true}

func main() {
	repo, out := os.Args[1], os.Args[2]
	os.MkdirAll(out, 0o755)
	replace := map[string]string{}
	sites := map[string]int{}
	var files []string
	skip := map[string]bool{"cli": true, "tests": true, "pikotest": true, "bench": true, "verifsim": true, ".git": true, "docs": true, "operations": true}
	filepath.Walk(repo, func(path string, info os.FileInfo, err error) error {
		if err != nil {
			return nil
		}
		rel, _ := filepath.Rel(repo, path)
		if info.IsDir() {
			if skip[strings.Split(rel, string(filepath.Separator))[0]] {
				return filepath.SkipDir
			}
			return nil
		}
		if !strings.HasSuffix(path, ".go") || strings.HasSuffix(path, "_test.go") {
			return nil
		}
		src, err := os.ReadFile(path)
		if err != nil {
			return nil
		}
		if !bytes.Contains(src, []byte(`"net"`)) && !bytes.Contains(src, []byte(`"crypto/tls"`)) && !bytes.Contains(src, []byte("gorilla/websocket")) {
			return nil
		}
		res, n, err := rewrite(path, src, sites)
		if err != nil {
			fmt.Fprintf(os.Stderr, "verif-rewrite: %s: %v\n", path, err)
			os.Exit(2)
		}
		if n == 0 {
			return nil
		}
		dst := filepath.Join(out, strings.ReplaceAll(rel, string(filepath.Separator), "__"))
		if old, err := os.ReadFile(dst); err != nil || !bytes.Equal(old, res) {
			if err := os.WriteFile(dst, res, 0o644); err != nil {
				fmt.Fprintln(os.Stderr, err)
				os.Exit(2)
			}
		}
		replace[path] = dst
		files = append(files, fmt.Sprintf("%s:%d", rel, n))
		return nil
	})
	json.NewEncoder(os.Stdout).Encode(map[string]any{"replace": replace, "sites": sites, "files": files})
}

func importName(f *ast.File, path string, def string) string {
	for _, im := range f.Imports {
		p, _ := strconv.Unquote(im.Path.Value)
		if p == path {
			if im.Name != nil {
				return im.Name.Name
			}
			return def
		}
	}
	return ""
}

func rewrite(path string, src []byte, sites map[string]int) ([]byte, int, error) {
	fset := token.NewFileSet()
	f, err := parser.ParseFile(fset, path, src, parser.ParseComments)
	if err != nil {
		return nil, 0, err
	}
	netN := importName(f, "net", "net")
	tlsN := importName(f, "crypto/tls", "tls")
	wsN := importName(f, "github.com/gorilla/websocket", "websocket")
	n := 0
	ast.Inspect(f, func(node ast.Node) bool {
		switch x := node.(type) {
		case *ast.SelectorExpr:
			id, ok := x.X.(*ast.Ident)
			if !ok || id.Obj != nil {
				return true
			}
			if netN != "" && id.Name == netN && (netFuncs[x.Sel.Name] || x.Sel.Name == "Dialer") {
				id.Name = "simnet"
				sites["net."+x.Sel.Name]++
				n++
			} else if tlsN != "" && id.Name == tlsN && x.Sel.Name == "Dial" {
				id.Name = "simnet"
				x.Sel.Name = "TLSDial"
				sites["tls.Dial"]++
				n++
			}
		case *ast.CompositeLit:
			sel, ok := x.Type.(*ast.SelectorExpr)
			if !ok {
				return true
			}
			id, ok := sel.X.(*ast.Ident)
			if ok && wsN != "" && id.Name == wsN && sel.Sel.Name == "Dialer" {
				x.Elts = append(x.Elts, &ast.KeyValueExpr{
					Key:   ast.NewIdent("NetDialContext"),
					Value: &ast.SelectorExpr{X: ast.NewIdent("simnet"), Sel: ast.NewIdent("DialContext")},
				})
				sites["websocket.Dialer"]++
				n++
			}
		}
		return true
	})
	if n == 0 {
		return nil, 0, nil
	}
	// add the simnet import; drop net / crypto/tls if no longer referenced
	used := map[string]bool{}
	ast.Inspect(f, func(node ast.Node) bool {
		if s, ok := node.(*ast.SelectorExpr); ok {
			if id, ok := s.X.(*ast.Ident); ok && id.Obj == nil {
				used[id.Name] = true
			}
		}
		return true
	})
	for _, d := range f.Decls {
		gd, ok := d.(*ast.GenDecl)
		if !ok || gd.Tok != token.IMPORT {
			continue
		}
		var specs []ast.Spec
		for _, s := range gd.Specs {
			im := s.(*ast.ImportSpec)
			p, _ := strconv.Unquote(im.Path.Value)
			if (p == "net" && !used[netN]) || (p == "crypto/tls" && !used[tlsN]) {
				continue
			}
			specs = append(specs, s)
		}
		specs = append(specs, &ast.ImportSpec{Path: &ast.BasicLit{Kind: token.STRING, Value: strconv.Quote(simnetPath)}})
		gd.Specs = specs
		if gd.Lparen == token.NoPos {
			gd.Lparen = gd.Pos()
			gd.Rparen = gd.End()
		}
		break
	}
	var buf bytes.Buffer
	if err := (&printer.Config{Mode: printer.UseSpaces | printer.TabIndent, Tabwidth: 8}).Fprint(&buf, fset, f); err != nil {
		return nil, 0, err
	}
	return buf.Bytes(), n, nil
}
