module verif-rewrite

go 1.26
