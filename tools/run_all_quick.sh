#!/bin/bash
# run every claimed quick check on the current tree, sequentially; summary at the end
cd /verif
for p in $(python3 -c "import json;print(' '.join(c['property_id'] for c in json.load(open('MANIFEST.json'))['checks']))"); do
  t0=$(date +%s)
  out=$(./verif check $p --tier quick 2>&1); rc=$?
  echo "$p rc=$rc $(( $(date +%s) - t0 ))s $(echo "$out" | grep -E 'VIOLATION|^OK|verif:' | head -2 | cut -c1-160 | tr '\n' ' ')"
done
