#!/bin/bash
# usage: tools/confirm_mut.sh <src dir with patch.diff, demo/, meta.json> <seeded id>
# Confirms a seeded change in a scratch worktree of /repo (HEAD): builds, passes the existing suite,
# its demonstration fails with it and passes without it. On success stores it under /verif/seeded/<id>/.
src=$1; id=$2
wt=/tmp/confirm/$id
rm -rf $wt; mkdir -p /tmp/confirm
git -C /repo worktree add --detach -q $wt HEAD || exit 2
cleanup() { git -C /repo worktree remove --force $wt 2>/dev/null; }
trap cleanup EXIT
cd $wt
log=/tmp/confirm/$id.log; : > $log
res() { echo "$id: $1" | tee -a $log; }
if ! git apply $src/patch.diff 2>>$log; then
  if ! git apply --3way $src/patch.diff 2>>$log; then res "PATCH-DOES-NOT-APPLY"; exit 1; fi
fi
git diff HEAD > /tmp/confirm/$id.patch
go build ./... >>$log 2>&1 || { res "BUILD-FAILS"; exit 1; }
go test -count=1 ./... >>$log 2>&1 || { res "SUITE-FAILS-WITH-CHANGE"; exit 1; }
cp -r $src/demo/. $wt/ 
demo_cmd=$(python3 -c "import json;print(json.load(open('$src/meta.json'))['demo_cmd'])")
( eval "$demo_cmd" ) >>$log 2>&1 && { res "DEMO-PASSES-WITH-CHANGE"; exit 1; }
git apply -R /tmp/confirm/$id.patch || { res "REVERT-FAILED"; exit 1; }
( eval "$demo_cmd" ) >>$log 2>&1 || { res "DEMO-FAILS-WITHOUT-CHANGE"; exit 1; }
mkdir -p /verif/seeded/$id
cp /tmp/confirm/$id.patch /verif/seeded/$id/patch.diff
rm -rf /verif/seeded/$id/demo; cp -r $src/demo /verif/seeded/$id/demo
python3 - <<PY
import json
m=json.load(open('$src/meta.json'))
m['confirmed']={'by':'tools/confirm_mut.sh in a scratch worktree of /repo HEAD','ran':['git apply patch.diff','go build ./...','go test -count=1 ./... (passes with the change)', m['demo_cmd']+' (fails with the change, passes without)']}
json.dump(m,open('/verif/seeded/$id/meta.json','w'),indent=1)
PY
res "CONFIRMED"
