#!/usr/bin/env python3
"""Regenerate /verif/MANIFEST.json from props.py (claimed checks) and properties.jsonl."""
import json, os, sys
V = os.path.dirname(os.path.dirname(os.path.abspath(__file__)))
sys.path.insert(0, V)
from props import PROPS, NOT_APPLICABLE

ids = [json.loads(l)["id"] for l in open(os.path.join(V, "properties.jsonl"))]
checks = []
for pid in ids:
    P = PROPS.get(pid)
    if not P or not P.get("claimed"):
        continue
    checks.append({
        "property_id": pid,
        "quick_cmd": "./verif check %s --tier quick" % pid,
        "thorough_cmd": "./verif check %s --tier thorough" % pid,
        "evidence_file": "evidence/%s.json" % pid,
        "replay_cmd_template": "./verif replay {path}",
        "engine": P["engine"],
        "level_claimed": {"category": "exploration", "text": P["level_text"], "design_ref": P.get("design_ref", "DESIGN.md section 4, " + pid)},
        "level_note": P.get("level_note", "trusted base: the simulation kernel (patched go1.26.8 runtime scheduler/map/select/timer randomness through -overlay, testing/synctest virtual clock, verifsim/simnet), the reference models and oracles in /verif/sim, the mechanical net.* -> simnet.* rewrite; sampled schedules and fault sequences, not enumerated"),
        "technique": P.get("technique", "deterministic simulation with fault injection: seeded search over schedules and fault sequences"),
    })
na = [{"property_id": pid, "reason": NOT_APPLICABLE.get(pid, "check not built yet (construction in progress; will be claimed)")}
      for pid in ids if not (PROPS.get(pid) or {}).get("claimed")]
m = {
    "version": 1,
    "setup_cmd": "./verif setup",
    "hooks": {
        "guard": "verif",
        "enable": "no source hooks are committed in /repo: every check regenerates, from /repo's working tree, a `go build -overlay` (patched go1.26.8 runtime files; net.* -> simnet.* rewritten copies of the piko files that touch the OS network; harness packages under the virtual directory /repo/verifsim; in-package harness files guarded by //go:build verif) and builds the worker with -tags verif",
        "baseline_off_cmd": "cd /repo && go build ./... && go test -vet=off -count=1 -timeout 25m ./...",
        "source_commits": [],
        "add_only": True,
    },
    "engines": [
        {"name": "h1-gossipsim", "path": "sim/inpkg/pkg__gossip", "serves_properties": [p for p in ids if (PROPS.get(p) or {}).get("engine") == "h1-gossipsim" and PROPS[p].get("claimed")],
         "kind_free_text": "deterministic simulation: real pkg/gossip nodes on simnet under the seeded scheduler, driven and free-running modes"},
        {"name": "h2-routesim", "path": "sim/h2", "serves_properties": [p for p in ids if (PROPS.get(p) or {}).get("engine") == "h2-routesim" and PROPS[p].get("claimed")],
         "kind_free_text": "deterministic simulation: real gossip + syncer + cluster.State + upstream manager/server per node"},
        {"name": "h3-clustersim", "path": "sim/h3", "serves_properties": [p for p in ids if (PROPS.get(p) or {}).get("engine") == "h3-clustersim" and PROPS[p].get("claimed")],
         "kind_free_text": "deterministic simulation: complete server.Server nodes, real clients, stamped upstream applications"},
    ],
    "checks": checks,
    "notes": "exit 0 = held (KNOWN-FINDING lines for recorded defects, see known_findings.json); exit 1 + VIOLATION line; exit 2 = build/tool/harness trouble, never a verdict. Checks honour VERIF_SEED and VERIF_TIER. See DESIGN.md.",
    "not_applicable": na,
}
json.dump(m, open(os.path.join(V, "MANIFEST.json"), "w"), indent=1)
print("claimed:", [c["property_id"] for c in checks], "unclaimed:", [n["property_id"] for n in na])
