#!/opt/veriftools/pyvenv/bin/python3
import json, jsonschema, glob, sys
m=json.load(open('/verif/MANIFEST.json')); jsonschema.validate(m, json.load(open('/root/.vp/MANIFEST.schema.json'))); print("manifest valid;", len(m['checks']), "checks")
s=json.load(open('/root/.vp/EVIDENCE.schema.json'))
claimed={c['property_id'] for c in m['checks']}
for f in sorted(glob.glob('/verif/evidence/*.json')):
    d=json.load(open(f)); jsonschema.validate(d, s)
    c=d['coverage']; print(d['property_id'], d['tier'], 'runs',c['evaluations'],'nontrivial',c['distinct_nontrivial'],'rph',c['runs_per_hour'], 'viol', d.get('violations'), '' if d['property_id'] in claimed else '(unclaimed)')
