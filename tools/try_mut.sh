#!/bin/bash
# usage: tools/try_mut.sh <patch.diff> <budget_s> <prop>...   - apply a seeded change to /repo, run checks, always revert
patch=$1; budget=$2; shift 2
cd /repo || exit 2
if ! git diff --quiet; then echo "repo dirty"; exit 2; fi
if ! git apply --3way "$patch" 2>/dev/null && ! git apply "$patch"; then echo "PATCH DOES NOT APPLY: $patch"; git reset -q --hard HEAD; exit 3; fi
trap 'git -C /repo reset -q --hard HEAD' EXIT
cd /verif
for p in "$@"; do
  out=$(./verif check $p --budget $budget 2>&1); rc=$?
  echo "== $p rc=$rc: $(echo "$out" | grep -E 'VIOLATION|OK prop|KNOWN|verif:' | head -3 | tr '\n' ' ')"
  if [ $rc = 1 ]; then
    f=$(echo "$out" | grep -o 'replay=[^ ]*' | head -1 | cut -d= -f2)
    python3 -c "
import json,sys
d=json.load(open('$f')); print('   ',d['rule'],'[%s]'%d['signature'],d['detail'][:300]); print('    ops',len(d['case'].get('script') or []), d.get('minimised'), d['case']['family'])"
    cp "$f" /tmp/last_mut_replay.json
  fi
done
