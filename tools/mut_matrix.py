#!/usr/bin/env python3
"""Apply every seeded change under /verif/seeded to /repo in turn, run the quick checks that
should notice it, undo it, and record which check reported what (seeded/MATRIX.json)."""
import json, os, subprocess, sys, time, re
V = "/verif"
extra = {  # besides the check of the property the change was written against
    "C01-m1": ["C05", "C20"], "C01-m2": ["C05"], "C02-m3": ["C13", "C03"], "C03-m2": ["C11"], "C04-m2": ["C11"],
    "C05-m2": ["C17"], "C11-m2": ["C04"], "C18-m1": ["C16"], "C20-m1": ["C05"], "C16-m1": ["C05"],
    # second wave (m3, m4)
    "C03-m3": ["C02"], "C11-m3": ["C13"], "C11-m4": ["C17"], "C08-m4": ["C01"], "C05-m4": ["C17"],
}
only = sys.argv[1:]
out = {}
mp = os.path.join(V, "seeded", "MATRIX.json")
if os.path.exists(mp):
    out = json.load(open(mp))
for sid in sorted(os.listdir(os.path.join(V, "seeded"))):
    d = os.path.join(V, "seeded", sid)
    if not os.path.isdir(d) or (only and sid not in only):
        continue
    prop = sid.split("-")[0]
    if subprocess.run(["git", "-C", "/repo", "diff", "--quiet"]).returncode != 0:
        sys.exit("repo dirty")
    r = subprocess.run(["git", "-C", "/repo", "apply", os.path.join(d, "patch.diff")], capture_output=True, text=True)
    if r.returncode != 0:
        out[sid] = {"error": "patch does not apply: " + r.stderr[:200]}
        continue
    res = {}
    try:
        for chk in [prop] + extra.get(sid, []):
            t0 = time.time()
            p = subprocess.run([os.path.join(V, "verif"), "check", chk, "--tier", "quick"], capture_output=True, text=True, cwd=V)
            m = re.search(r"VIOLATION property=(\S+) replay=(\S+)", p.stdout)
            entry = {"exit": p.returncode, "wall_s": round(time.time() - t0, 1)}
            if m:
                rp = json.load(open(m.group(2)))
                entry.update(rule=rp["rule"], signature=rp["signature"], detail=rp["detail"][:240],
                             ops_after=len(rp["case"].get("script") or []), family=rp["case"].get("family"))
            elif p.returncode == 2:
                entry["note"] = (p.stderr or p.stdout)[-300:]
            res[chk] = entry
            print(sid, chk, entry.get("exit"), entry.get("rule"), entry.get("signature"), flush=True)
    finally:
        subprocess.run(["git", "-C", "/repo", "reset", "-q", "--hard", "HEAD"])
    out[sid] = res
    json.dump(out, open(mp, "w"), indent=1, sort_keys=True)
