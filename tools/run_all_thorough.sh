#!/bin/bash
# usage: tools/run_all_thorough.sh [budget_s] [seed]   - every claimed check at the thorough tier (optionally with a shorter budget)
budget=$1; seed=${2:-1}
cd "$(dirname "$0")/.."
for p in $(python3 -c "import json;print(' '.join(c['property_id'] for c in json.load(open('MANIFEST.json'))['checks']))"); do
  t0=$(date +%s)
  if [ -n "$budget" ]; then out=$(VERIF_SEED=$seed ./verif check $p --tier thorough --budget $budget 2>&1); rc=$?
  else out=$(VERIF_SEED=$seed ./verif check $p --tier thorough 2>&1); rc=$?; fi
  echo "seed=$seed $p rc=$rc $(( $(date +%s) - t0 ))s $(echo "$out" | grep -E 'VIOLATION|^OK|verif:' | head -2 | cut -c1-200 | tr '\n' ' ')"
  if [ $rc != 0 ]; then echo "$out" | tail -5 | cut -c1-300; fi
done
