#!/bin/bash
# usage: tools/seed_sweep.sh <tier> <seed>...   - every claimed check at several VERIF_SEED values; prints one line per (seed, check)
tier=$1; shift
cd "$(dirname "$0")/.."
for seed in "$@"; do
  for p in $(python3 -c "import json;print(' '.join(c['property_id'] for c in json.load(open('MANIFEST.json'))['checks']))"); do
    t0=$(date +%s)
    out=$(VERIF_SEED=$seed ./verif check $p --tier $tier 2>&1); rc=$?
    echo "seed=$seed $p rc=$rc $(( $(date +%s) - t0 ))s $(echo "$out" | grep -E 'VIOLATION|^OK|verif:' | head -2 | cut -c1-200 | tr '\n' ' ')"
    if [ $rc != 0 ]; then echo "$out" | tail -5 | cut -c1-300; fi
  done
done
