#!/usr/bin/env python3
import json,sys
d=json.load(open(sys.argv[1]))
print(d['rule'], '[%s]'%d['signature'], d['detail'])
print(' kind',d.get('kind'),'minimised', d.get('minimised'), 'cfg', d['case']['cfg'], d['case']['family'])
for o in (d['case'].get('script') or [])[:int(sys.argv[3]) if len(sys.argv)>3 else 40]: print('   ',o)
n=int(sys.argv[2]) if len(sys.argv)>2 else 25
print('\n'.join((d.get('events') or [])[-n:]))
if d.get('crash'): print(d['crash'][-2500:])
