package simkit

import (
	"fmt"
	"sort"
	"strings"
	"sync"

	"github.com/andydunstall/piko/verifsim/porcupine"
)

// History records invoke/return pairs of concurrently issued operations,
// stamped with a global event sequence number (not virtual time: operations of
// one virtual instant would tie and count as concurrent), partitioned by an
// independent key, and checks each partition for linearizability against a
// sequential model with porcupine.
type History struct {
	mu    sync.Mutex
	seq   int64
	parts map[string][]porcupine.Operation
}

func NewHistory() *History { return &History{parts: map[string][]porcupine.Operation{}} }

// Stamp returns the next event sequence number (take one right before invoking).
func (h *History) Stamp() int64 {
	h.mu.Lock()
	h.seq++
	s := h.seq
	h.mu.Unlock()
	return s
}

// Done records a completed operation invoked at stamp call.
func (h *History) Done(part string, client int, call int64, in, out any) {
	h.mu.Lock()
	h.seq++
	h.parts[part] = append(h.parts[part], porcupine.Operation{ClientId: client, Input: in, Call: call, Output: out, Return: h.seq})
	h.mu.Unlock()
}

// LinResult is the outcome of checking every partition.
type LinResult struct {
	Checked, Skipped, Ops int
	BadPart               string   // first partition that is not linearizable
	BadOps                []string // its operations in invocation order, described by the model
}

// Check verifies each partition (optionally restricted to the operations keep
// accepts). Partitions longer than maxOps are skipped and counted (the search
// is exponential in the worst case and has no clock to time out on inside a
// bubble), never reported.
func (h *History) Check(model porcupine.Model, keep func(in any) bool, maxOps int) LinResult {
	h.mu.Lock()
	names := make([]string, 0, len(h.parts))
	for k := range h.parts {
		names = append(names, k)
	}
	sort.Strings(names)
	h.mu.Unlock()
	var res LinResult
	for _, name := range names {
		var ops []porcupine.Operation
		for _, op := range h.parts[name] {
			if keep == nil || keep(op.Input) {
				ops = append(ops, op)
			}
		}
		if len(ops) == 0 {
			continue
		}
		if len(ops) > maxOps {
			res.Skipped++
			continue
		}
		res.Checked++
		res.Ops += len(ops)
		if porcupine.CheckOperations(model, ops) {
			continue
		}
		res.BadPart = name
		sort.Slice(ops, func(i, j int) bool { return ops[i].Call < ops[j].Call })
		for _, op := range ops {
			d := fmt.Sprintf("%v -> %v", op.Input, op.Output)
			if model.DescribeOperation != nil {
				d = model.DescribeOperation(op.Input, op.Output)
			}
			res.BadOps = append(res.BadOps, fmt.Sprintf("[%d,%d] c%d %s", op.Call, op.Return, op.ClientId, d))
		}
		return res
	}
	return res
}

// LogBad writes the offending partition to the run log (last 60 operations).
func (r *Run) LogBad(res LinResult) {
	ops := res.BadOps
	if len(ops) > 60 {
		ops = ops[len(ops)-60:]
	}
	r.Logf("not linearizable: partition %s: %s", res.BadPart, strings.Join(ops, "; "))
}
