// Package simkit is the property-independent part of the /verif simulation
// harness: the seeded PRNG every harness-level choice is drawn from, the case
// (config + script) representation that makes a run replayable and shrinkable,
// the event log, oracle failure recording, probes and fault counters.
//
// It is injected into the piko module as github.com/andydunstall/piko/verifsim/simkit
// through `go build -overlay`; nothing is written into /repo.
package simkit

import (
	"encoding/json"
	"fmt"
	"hash/fnv"
	"sort"
	"strings"
	"sync"
	"time"
	_ "unsafe"
)

//go:linkname SchedSeed runtime.simSchedSeed
func SchedSeed(s uint64)

//go:linkname SchedStats runtime.simSchedStats
func SchedStats() (hash, picks, yields uint64)

//go:linkname SetYield runtime.simSetYield
func SetYield(num, den uint64)

// SetStall: with probability 1/den a schedule point also lets up to maxNS of
// virtual time pass (den 0 = off).
//
//go:linkname SetStall runtime.simSetStall
func SetStall(den, maxNS uint64)

//go:linkname StallCount runtime.simStallCount
func StallCount() uint64

//go:linkname SetWallLimit runtime.simSetWallLimit
func SetWallLimit(ns int64)

//go:linkname SetTag runtime.simSetTag
func SetTag(t uint64)

//go:linkname GetTag runtime.simGetTag
func GetTag() uint64

// ---------------------------------------------------------------- PRNG

// Rand is splitmix64; tiny, seedable, forkable.
type Rand struct{ s uint64 }

func NewRand(seed uint64) *Rand { return &Rand{s: seed*0x9e3779b97f4a7c15 + 0x1234567} }

func (r *Rand) U64() uint64 {
	r.s += 0x9e3779b97f4a7c15
	z := r.s
	z = (z ^ (z >> 30)) * 0xbf58476d1ce4e5b9
	z = (z ^ (z >> 27)) * 0x94d049bb133111eb
	return z ^ (z >> 31)
}
func (r *Rand) Intn(n int) int {
	if n <= 0 {
		return 0
	}
	return int(r.U64() % uint64(n))
}
func (r *Rand) Int63n(n int64) int64 {
	if n <= 0 {
		return 0
	}
	return int64(r.U64() % uint64(n))
}

// Range returns a value in [lo, hi].
func (r *Rand) Range(lo, hi int) int {
	if hi <= lo {
		return lo
	}
	return lo + r.Intn(hi-lo+1)
}
func (r *Rand) Float() float64 { return float64(r.U64()>>11) / float64(1<<53) }

// Permille returns true with probability p/1000.
func (r *Rand) Permille(p int64) bool { return p > 0 && int64(r.U64()%1000) < p }
func (r *Rand) Bool() bool            { return r.U64()&1 == 1 }
func (r *Rand) Fork() *Rand           { return NewRand(r.U64()) }

// Weighted picks an index with probability proportional to w[i].
func (r *Rand) Weighted(w []int) int {
	t := 0
	for _, x := range w {
		t += x
	}
	if t <= 0 {
		return 0
	}
	k := r.Intn(t)
	for i, x := range w {
		if k < x {
			return i
		}
		k -= x
	}
	return len(w) - 1
}

func Mix(a ...uint64) uint64 {
	h := uint64(0xcbf29ce484222325)
	for _, x := range a {
		h ^= x
		h *= 0x100000001b3
		h ^= h >> 29
		h *= 0x9e3779b97f4a7c15
		h ^= h >> 32
	}
	if h == 0 {
		h = 1
	}
	return h
}

func HashString(s string) uint64 {
	h := fnv.New64a()
	h.Write([]byte(s))
	return h.Sum64()
}

// ---------------------------------------------------------------- case

// Op is one scripted operation or fault. Integer arguments are interpreted
// against the live state when executed ("upstream #A mod |live|"), so that
// deleting other ops during minimisation keeps the remaining ones meaningful.
type Op struct {
	K string `json:"k"`
	A int    `json:"a,omitempty"`
	B int    `json:"b,omitempty"`
	C int    `json:"c,omitempty"`
	D int64  `json:"d,omitempty"` // duration (ns) where relevant
	S string `json:"s,omitempty"`
}

func (o Op) String() string {
	s := fmt.Sprintf("%s(%d,%d,%d", o.K, o.A, o.B, o.C)
	if o.D != 0 {
		s += fmt.Sprintf(",d=%v", time.Duration(o.D))
	}
	if o.S != "" {
		if len(o.S) > 24 {
			s += fmt.Sprintf(",s=%q..%d", o.S[:24], len(o.S))
		} else {
			s += fmt.Sprintf(",s=%q", o.S)
		}
	}
	return s + ")"
}

// Case is everything that determines a run.
type Case struct {
	Prop      string           `json:"prop"`
	Family    string           `json:"family"`
	SchedSeed uint64           `json:"sched_seed"`
	NetSeed   uint64           `json:"net_seed"`
	Cfg       map[string]int64 `json:"cfg"`
	Script    []Op             `json:"script"`
}

func (c *Case) Int(k string) int           { return int(c.Cfg[k]) }
func (c *Case) I64(k string) int64         { return c.Cfg[k] }
func (c *Case) On(k string) bool           { return c.Cfg[k] != 0 }
func (c *Case) Dur(k string) time.Duration { return time.Duration(c.Cfg[k]) }

func (c *Case) ScriptHash() uint64 {
	b, _ := json.Marshal(struct {
		F string
		C map[string]int64
		S []Op
	}{c.Family, c.Cfg, c.Script})
	return HashString(string(b))
}

// ---------------------------------------------------------------- run

type Violation struct {
	Rule   string `json:"rule"`
	Sig    string `json:"sig"`
	Detail string `json:"detail"`
	AtNs   int64  `json:"at_ns"`
	Step   int    `json:"step"`
}

type Result struct {
	Idx        int              `json:"idx"`
	Prop       string           `json:"prop"`
	Family     string           `json:"family"`
	Status     string           `json:"status"` // ok | violation | error
	Violations []Violation      `json:"violations,omitempty"`
	NViol      int              `json:"nviol"`
	Err        string           `json:"err,omitempty"`
	VirtNs     int64            `json:"virt_ns"`
	Steps      int              `json:"steps"`
	Probes     map[string]int64 `json:"probes,omitempty"`
	Faults     map[string]int64 `json:"faults,omitempty"`
	SchedHash  string           `json:"sched_hash"`
	ScriptHash string           `json:"script_hash"`
	EventHash  string           `json:"event_hash"`
	Picks      uint64           `json:"picks"`
	Yields     uint64           `json:"yields"`
	WallMs     float64          `json:"wall_ms"`
	Summary    string           `json:"summary,omitempty"`
	Events     []string         `json:"events,omitempty"`
}

type Run struct {
	Case  *Case
	Net   *Rand // network-level choices
	Aux   *Rand // harness-level choices made during execution
	T0    time.Time
	Step  int
	Steps int

	viol    []Violation
	nviol   int
	probes  map[string]int64
	faults  map[string]int64
	events  []string
	evHash  uint64
	nEvents int
	keepAll bool
	Summary string
	mu      sync.Mutex

	// filled in by the driver at the end of Exec (inside the bubble)
	EndNs     int64
	SchedHash uint64
	Picks     uint64
	Yields    uint64
}

const eventRing = 400

func NewRun(c *Case, keepAllEvents bool) *Run {
	return &Run{
		Case:    c,
		Net:     NewRand(c.NetSeed),
		Aux:     NewRand(c.NetSeed ^ 0xa5a5a5a5),
		probes:  map[string]int64{},
		faults:  map[string]int64{},
		evHash:  1469598103934665603,
		keepAll: keepAllEvents,
	}
}

// Now returns the virtual time since the start of the run.
func (r *Run) Now() time.Duration {
	if r.T0.IsZero() {
		return 0
	}
	return time.Since(r.T0)
}

// Logf appends an event. It never draws from a PRNG nor reads a real clock.
func (r *Run) Logf(format string, a ...any) {
	s := fmt.Sprintf("%12d ", int64(r.Now())) + fmt.Sprintf(format, a...)
	r.mu.Lock()
	defer r.mu.Unlock()
	for i := 0; i < len(s); i++ {
		r.evHash = (r.evHash ^ uint64(s[i])) * 1099511628211
	}
	r.evHash = (r.evHash ^ 0xff) * 1099511628211
	r.nEvents++
	if r.keepAll || len(r.events) < eventRing {
		r.events = append(r.events, s)
	} else {
		r.events[(r.nEvents-1)%eventRing] = s
	}
}

// Fail records an oracle violation. rule is "<property>.<name>"; sig is a short
// structured class used to match known findings and to keep minimisation on the
// same violation; detail is free text.
func (r *Run) Fail(rule, sig, format string, a ...any) {
	d := fmt.Sprintf(format, a...)
	r.Logf("VIOLATION %s [%s] %s", rule, sig, d)
	r.mu.Lock()
	defer r.mu.Unlock()
	r.nviol++
	own := strings.HasPrefix(rule, r.Case.Prop+".") || strings.HasPrefix(rule, "SIM.")
	if len(r.viol) < 8 || (own && len(r.viol) < 16) {
		r.viol = append(r.viol, Violation{Rule: rule, Sig: sig, Detail: d, AtNs: int64(r.Now()), Step: r.Step})
	}
}

func (r *Run) Failed() bool { r.mu.Lock(); defer r.mu.Unlock(); return r.nviol > 0 }

// Stop reports whether the run should end early: an oracle of the property under
// check (or of the harness itself) has failed. Failures of other properties'
// rules are recorded but do not cut the run short, so that they cannot mask the
// rules this check is responsible for.
func (r *Run) Stop() bool {
	r.mu.Lock()
	defer r.mu.Unlock()
	for _, v := range r.viol {
		if strings.HasPrefix(v.Rule, r.Case.Prop+".") || strings.HasPrefix(v.Rule, "SIM.") {
			return true
		}
	}
	return false
}

// FailedFor reports whether a rule of the given property has failed.
func (r *Run) FailedFor(prop string) bool {
	r.mu.Lock()
	defer r.mu.Unlock()
	for _, v := range r.viol {
		if strings.HasPrefix(v.Rule, prop+".") {
			return true
		}
	}
	return false
}

func (r *Run) Probe(name string)         { r.mu.Lock(); r.probes[name]++; r.mu.Unlock() }
func (r *Run) ProbeN(name string, n int) { r.mu.Lock(); r.probes[name] += int64(n); r.mu.Unlock() }
func (r *Run) Fault(name string)         { r.mu.Lock(); r.faults[name]++; r.mu.Unlock() }
func (r *Run) FaultN(name string, n int) { r.mu.Lock(); r.faults[name] += int64(n); r.mu.Unlock() }
func (r *Run) ProbeCount(name string) int64 {
	r.mu.Lock()
	defer r.mu.Unlock()
	return r.probes[name]
}

func (r *Run) Finish(idx int, wall time.Duration, status, errText string) *Result {
	res := &Result{
		Idx: idx, Prop: r.Case.Prop, Family: r.Case.Family,
		Status: status, Err: errText,
		Violations: r.viol, NViol: r.nviol,
		VirtNs: r.EndNs, Steps: r.Steps,
		Probes: r.probes, Faults: r.faults,
		SchedHash:  fmt.Sprintf("%016x", r.SchedHash),
		ScriptHash: fmt.Sprintf("%016x", r.Case.ScriptHash()),
		EventHash:  fmt.Sprintf("%016x", r.evHash),
		Picks:      r.Picks, Yields: r.Yields,
		WallMs:  float64(wall.Microseconds()) / 1000,
		Summary: r.Summary,
	}
	if status == "ok" && r.nviol > 0 {
		res.Status = "violation"
	}
	return res
}

// OrderedEvents returns the retained events in order.
func (r *Run) OrderedEvents() []string {
	if r.keepAll || r.nEvents <= eventRing {
		return r.events
	}
	out := make([]string, 0, eventRing)
	for i := 0; i < eventRing; i++ {
		out = append(out, r.events[(r.nEvents+i)%eventRing])
	}
	return out
}

// ---------------------------------------------------------------- registry

// Prop is one property check: a generator of cases and an executor that runs
// inside the synctest bubble.
type Prop struct {
	ID   string
	Gen  func(rng *Rand, tier string, idx int) *Case
	Exec func(run *Run)
	// MaxWall is the wall-clock watchdog for one run (0 = default).
	MaxWall time.Duration
}

var registry = map[string]*Prop{}

func Register(p *Prop)       { registry[p.ID] = p }
func Lookup(id string) *Prop { return registry[id] }
func IDs() []string {
	var ids []string
	for id := range registry {
		ids = append(ids, id)
	}
	sort.Strings(ids)
	return ids
}

// SortedKeys is a helper for deterministic iteration over maps in harness code.
func SortedKeys[V any](m map[string]V) []string {
	ks := make([]string, 0, len(m))
	for k := range m {
		ks = append(ks, k)
	}
	sort.Strings(ks)
	return ks
}
