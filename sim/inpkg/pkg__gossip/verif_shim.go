//go:build verif

package gossip

import "time"

// Accessors used by the /verif harness packages outside this package. Added
// through `go build -overlay` only; not part of /repo.

// VerifRound opens one gossip round with the given known peer (what the
// gossip ticker does with a randomly chosen peer).
func (g *Gossip) VerifRound(peerID string) bool {
	for _, m := range g.state.Nodes() {
		if m.ID == peerID && m.ID != g.state.LocalNodeMetadata().ID && !m.Left {
			_ = g.gossip(m)
			return true
		}
	}
	return false
}

func (g *Gossip) VerifUpdateLiveness()     { g.state.UpdateLiveness(float64(suspicionThreshold)) }
func (g *Gossip) VerifCompact(threshold int) { g.state.CompactLocal(threshold) }
func (g *Gossip) VerifRemoveExpired()      { g.state.RemoveExpired() }

// VerifProductionDetector replaces the detector whose bootstrap interval was
// derived from an hours-long (ticker-disabling) interval by one with the
// bootstrap of a production configuration.
func (g *Gossip) VerifProductionDetector(bootstrap time.Duration) {
	fd := newAccrualFailureDetector(bootstrap, 50)
	g.state.failureDetector = fd
	g.packetListener.failureDetector = fd
}

const VerifNodeExpiry = nodeExpiry
const VerifCompactThreshold = compactThreshold
