//go:build verif

// H1 "gossipsim": real clusterState, codec, packetListener, streamListener,
// Gossip and accrualFailureDetector of 2..6 nodes on the simulated network,
// with reference models and oracles for C02 C03 C11 C12 C13 C14 C17.
//
// This file is added to package gossip by /verif through `go build -overlay`
// (it is not part of /repo); see /verif/DESIGN.md sections 3 and 4.

package gossip

import (
	"bytes"
	"fmt"
	"sort"
	"strconv"
	"strings"
	"sync"
	"testing/synctest"
	"time"

	"github.com/andydunstall/piko/pkg/log"
	"github.com/andydunstall/piko/verifsim/simkit"
	"github.com/andydunstall/piko/verifsim/simnet"
)

const h1Port = 8003

// ------------------------------------------------------------ watcher fold (C14)

type h1ShadowNode struct {
	kv          map[string]string
	left        bool
	unreachable bool
}

// h1Watcher folds the notifications it receives into a shadow view.
type h1Watcher struct {
	mu     sync.Mutex
	w      *h1World
	owner  int
	nodes  map[string]*h1ShadowNode
	events int
	expired []string
}

func (w *h1Watcher) get(id, what string) *h1ShadowNode {
	n := w.nodes[id]
	if n == nil {
		w.w.run.Fail("C14.join-first", what+"-before-join", "n%d was notified %s for %s before any OnJoin", w.owner, what, id)
		n = &h1ShadowNode{kv: map[string]string{}}
		w.nodes[id] = n
	}
	return n
}

func (w *h1Watcher) OnJoin(id string) {
	w.mu.Lock()
	defer w.mu.Unlock()
	w.events++
	if w.nodes[id] == nil {
		w.nodes[id] = &h1ShadowNode{kv: map[string]string{}}
	} else {
		w.w.run.Probe("c14.duplicate_join")
	}
	if w.w.free != nil {
		w.w.free.noteJoin(w.owner, id)
	}
}
func (w *h1Watcher) OnLeave(id string) {
	w.mu.Lock()
	defer w.mu.Unlock()
	w.events++
	w.get(id, "OnLeave").left = true
}
func (w *h1Watcher) OnReachable(id string) {
	w.mu.Lock()
	defer w.mu.Unlock()
	w.events++
	w.get(id, "OnReachable").unreachable = false
}
func (w *h1Watcher) OnUnreachable(id string) {
	w.mu.Lock()
	defer w.mu.Unlock()
	w.events++
	w.get(id, "OnUnreachable").unreachable = true
}
func (w *h1Watcher) OnUpsertKey(id, key, value string) {
	w.mu.Lock()
	defer w.mu.Unlock()
	w.events++
	w.get(id, "OnUpsertKey").kv[key] = value
}
func (w *h1Watcher) OnDeleteKey(id, key string) {
	w.mu.Lock()
	defer w.mu.Unlock()
	w.events++
	delete(w.get(id, "OnDeleteKey").kv, key)
}
func (w *h1Watcher) OnExpired(id string) {
	w.mu.Lock()
	defer w.mu.Unlock()
	w.events++
	if w.nodes[id] == nil {
		w.w.run.Fail("C14.flags", "expired-unknown", "n%d was notified OnExpired for unknown %s", w.owner, id)
	}
	delete(w.nodes, id)
	w.expired = append(w.expired, id)
	if w.w.free != nil {
		w.w.free.noteExpired(w.owner, id)
	}
}

// takeExpired returns the ids announced as expired since the last call.
func (w *h1Watcher) takeExpired() []string {
	w.mu.Lock()
	defer w.mu.Unlock()
	e := w.expired
	w.expired = nil
	return e
}

// ------------------------------------------------------------ world

type h1ModelEntry struct {
	value   string
	deleted bool
}

type h1View struct {
	known   bool
	version uint64
	left    bool
	everLeft bool // this observer has at some time shown the node as left
	expiredOnce bool // the observer has forgotten the node at least once
	leftSeenSet bool
	leftMarkerVer uint64 // version of the left marker the observer holds
	leftSeenAt  time.Time // when this observer first showed the node as left (since it last learnt it)
}

type h1Node struct {
	idx   int
	id    string
	addr  string
	g     *Gossip
	w     *h1Watcher
	alive bool // attached to the network and running
	left  bool // performed a graceful leave
	crashed bool

	// ground truth about the node's own published state, derived from the
	// node's own LocalNode() after each of its local writes
	log        map[uint64]Entry
	cur        map[string]Entry
	ver        uint64
	lastMarker uint64 // version of the marker entry of the last compaction

	model map[string]h1ModelEntry // C17 reference: last-write-wins map

	views map[string]*h1View // what this node showed about others at the last check
}

type h1Packet struct {
	src, dst string
	b        []byte
	// which nodes the sender showed as left when it sent the packet
	senderLeft map[string]bool
	seq        int
}

type h1World struct {
	run   *simkit.Run
	// gapPossible: ids that SOME observer has forgotten and learnt again. The
	// version gap of finding F4 is inherited by whoever learns the node's
	// state from that observer (a delta carries what the sender has), so the
	// attribution cannot stay with the observer that did the forgetting.
	gapPossible map[string]bool
	nw    *simnet.Net
	nodes []*h1Node
	byID  map[string]*h1Node
	byAddr map[string]*h1Node

	maxPacket int
	interval  time.Duration
	driven    bool

	mu      sync.Mutex
	pend    []*h1Packet
	seq     int
	lastDigestTo map[string]digest // dst addr -> last digest delivered to it (C13.prefix)
	lastDigestFrom map[string]string
	emitChecks bool
	free       *h1Free // set in free-running mode
	oversize   bool // the case deliberately contains entries larger than a packet (F1 family)
}

func h1Addr(i int) string { return fmt.Sprintf("10.0.0.%d:%d", i+1, h1Port) }

func newH1World(run *simkit.Run, n int, maxPacket int, interval time.Duration, driven bool, ncfg simnet.Config) *h1World {
	w := &h1World{run: run, byID: map[string]*h1Node{}, byAddr: map[string]*h1Node{}, maxPacket: maxPacket, interval: interval,
		driven: driven, lastDigestTo: map[string]digest{}, lastDigestFrom: map[string]string{}, emitChecks: true}
	w.nw = simnet.Reset(run, ncfg)
	w.nw.MarkGossipPort(h1Port)
	w.nw.OnPacket = w.onPacket
	if driven {
		w.nw.Intercept = w.intercept
	}
	for i := 0; i < n; i++ {
		w.addNode()
	}
	return w
}

func (w *h1World) addNode() *h1Node {
	i := len(w.nodes)
	nd := &h1Node{idx: i, id: fmt.Sprintf("n%d", i), addr: h1Addr(i), alive: true,
		log: map[uint64]Entry{}, cur: map[string]Entry{}, model: map[string]h1ModelEntry{}, views: map[string]*h1View{}}
	nd.w = &h1Watcher{w: w, owner: i, nodes: map[string]*h1ShadowNode{}}
	done := make(chan struct{})
	go func() {
		defer close(done)
		simnet.SetHost(fmt.Sprintf("10.0.0.%d", i+1))
		sl, err := simnet.Listen("tcp", nd.addr)
		if err != nil {
			w.run.Fail("SIM.setup", "listen", "%v", err)
			return
		}
		pl, err := simnet.ListenPacket("udp", nd.addr)
		if err != nil {
			w.run.Fail("SIM.setup", "listenudp", "%v", err)
			return
		}
		nd.g = New(nd.id, &Config{BindAddr: nd.addr, AdvertiseAddr: nd.addr, Interval: w.interval, MaxPacketSize: w.maxPacket},
			sl, pl, nd.w, log.NewNopLogger())
	}()
	<-done
	if w.driven && nd.g != nil {
		// The driven mode disables piko's tickers with an hours-long interval, but
		// the detector's bootstrap interval is derived from it (2 x interval);
		// give the detector the bootstrap of a production configuration (2 x 100ms)
		// so that liveness evaluation behaves as deployed.
		fd := newAccrualFailureDetector(200*time.Millisecond, 50)
		nd.g.state.failureDetector = fd
		nd.g.packetListener.failureDetector = fd
	}
	w.nodes = append(w.nodes, nd)
	w.byID[nd.id] = nd
	w.byAddr[nd.addr] = nd
	return nd
}

func (w *h1World) closeAll() {
	for _, nd := range w.nodes {
		if nd.g != nil {
			nd.g.Close()
		}
	}
}

// ------------------------------------------------------------ packets

func (w *h1World) intercept(src, dst string, b []byte) bool {
	p := &h1Packet{src: src, dst: dst, b: b, senderLeft: map[string]bool{}}
	if s := w.byAddr[src]; s != nil && s.g != nil {
		for _, m := range s.g.state.Nodes() {
			if m.Left {
				p.senderLeft[m.ID] = true
			}
		}
	}
	w.mu.Lock()
	w.seq++
	p.seq = w.seq
	w.pend = append(w.pend, p)
	w.mu.Unlock()
	return true
}

func (w *h1World) pending() int { w.mu.Lock(); defer w.mu.Unlock(); return len(w.pend) }

func (w *h1World) takePending(k int, remove bool) *h1Packet {
	w.mu.Lock()
	defer w.mu.Unlock()
	if len(w.pend) == 0 {
		return nil
	}
	i := k % len(w.pend)
	p := w.pend[i]
	if remove {
		w.pend = append(w.pend[:i:i], w.pend[i+1:]...)
	}
	return p
}

// deliver hands a packet to its destination's real packet listener and waits
// until the node has finished handling it (quiescence).
func (w *h1World) deliver(p *h1Packet) {
	dst := w.byAddr[p.dst]
	if dst == nil || !dst.alive {
		w.run.Fault("pkt_to_dead")
		return
	}
	var before map[string]NodeMetadata
	if w.driven {
		before = metaMap(dst.g.state.Nodes())
	}
	if len(p.b) >= 2 && messageType(p.b[0]) == messageTypeDigest {
		if _, dg, err := decodeDigest(p.b); err == nil {
			w.mu.Lock()
			w.lastDigestTo[p.dst] = dg
			w.lastDigestFrom[p.dst] = p.src
			w.mu.Unlock()
		}
	}
	if w.driven {
		time.Sleep(time.Millisecond) // arrivals at a node are strictly increasing in time
	}
	w.nw.Inject(p.src, p.dst, p.b)
	synctest.Wait()
	if w.driven {
		w.checkRelearn(dst, p, before)
	}
}

func metaMap(ms []NodeMetadata) map[string]NodeMetadata {
	out := make(map[string]NodeMetadata, len(ms))
	for _, m := range ms {
		out[m.ID] = m
	}
	return out
}

// checkRelearn: C11.left-no-relearn, attributed to the packet that taught it.
func (w *h1World) checkRelearn(o *h1Node, p *h1Packet, before map[string]NodeMetadata) {
	after := metaMap(o.g.state.Nodes())
	for id, m := range after {
		if _, had := before[id]; had {
			continue
		}
		x := w.byID[id]
		if x == nil || !x.left {
			continue
		}
		if m.Left {
			w.run.Probe("c11.learnt_departure_of_unknown_node")
			continue
		}
		if p.senderLeft[id] {
			sig, extra := "relearn-live-from-aware-peer", ""
			if v := o.views[id]; v != nil && v.expiredOnce {
				// F4 again: the observer had forgotten the node; a delta answering a
				// digest it sent before that re-creates the node from the entries
				// above the old version, and when the packet ends before the left
				// marker the departed node is live until the next exchange
				sig, extra = "relearn-live-from-aware-peer-after-expiry-relearn", " (the observer had expired it before; the packet re-created it)"
			}
			w.run.Fail("C11.left-no-relearn", sig,
				"n%d learnt left node %s as live from %s, which knew it had left when it sent the packet%s", o.idx, id, p.src, extra)
		} else {
			w.run.Probe("c11.relearn_from_unaware_peer")
		}
	}
}

// ------------------------------------------------------------ C13: every emitted datagram

func entrySize(e Entry) int {
	var buf bytes.Buffer
	_ = newEncoder(&buf).Encode(e)
	return buf.Len()
}

func headerSize(h deltaHeader) int {
	var buf bytes.Buffer
	_ = newEncoder(&buf).Encode(&h)
	return buf.Len()
}

func (w *h1World) onPacket(src, dst string, b []byte) {
	if !w.emitChecks {
		return
	}
	run := w.run
	run.Probe("c13.packets_emitted")
	if len(b) > w.maxPacket {
		run.Fail("C13.size", "oversize", "%s emitted a %d-byte datagram, limit %d", src, len(b), w.maxPacket)
	}
	if len(b) < 2 {
		run.Fail("C13.whole", "short", "%s emitted a %d-byte datagram", src, len(b))
		return
	}
	vals, ok := msgpackWalk(b[2:])
	if !ok {
		run.Fail("C13.whole", "partial-value", "%s emitted a datagram (type %d, %d bytes) that does not end on a msgpack value boundary", src, b[0], len(b))
		return
	}
	switch messageType(b[0]) {
	case messageTypeDigest:
		if _, _, err := decodeDigest(b); err != nil {
			run.Fail("C13.whole", "digest-undecodable", "%s emitted a digest that its own decoder rejects: %v", src, err)
		}
		if vals < 1 {
			run.Fail("C13.whole", "no-header", "%s emitted a digest without header", src)
		}
	case messageTypeDelta:
		_, dl, err := decodeDelta(b)
		if err != nil {
			run.Fail("C13.whole", "delta-undecodable", "%s emitted a delta that its own decoder rejects: %v", src, err)
			return
		}
		w.checkDelta(src, dst, b, dl)
	default:
		run.Fail("C13.whole", "bad-type", "%s emitted datagram type %d", src, b[0])
	}
}

// checkDelta: C13.order, C13.prefix, C13.maximal for one emitted delta.
func (w *h1World) checkDelta(src, dst string, b []byte, dl delta) {
	run := w.run
	s := w.byAddr[src]
	if s == nil || s.g == nil {
		return
	}
	for _, de := range dl {
		for i := 1; i < len(de.Entries); i++ {
			if de.Entries[i].Version <= de.Entries[i-1].Version {
				run.Fail("C13.order", "unsorted", "%s emitted entries of %s out of version order (%d after %d)", src, de.ID, de.Entries[i].Version, de.Entries[i-1].Version)
			}
		}
	}
	if !w.driven {
		return
	}
	w.mu.Lock()
	dg, ok := w.lastDigestTo[src]
	from := w.lastDigestFrom[src]
	w.mu.Unlock()
	if !ok || from != dst {
		return
	}
	// what the sender intends to send for that digest, computed on the
	// (quiescent apart from this handler) sender itself
	intended := s.g.state.Delta(dg, false)
	run.Probe("c13.delta_checked_against_intent")
	pi := 0
	size := len(b)
	truncated := false
	for ii, in := range intended {
		if pi >= len(dl) {
			// the whole node was omitted: its header (or header + nothing) did not fit
			truncated = true
			hs := headerSize(deltaHeader{NodeID: in.ID, Addr: in.Addr, Entries: len(in.Entries)})
			if size+hs+entrySize(in.Entries[0]) <= w.maxPacket {
				run.Fail("C13.maximal", "node-omitted-but-fits", "%s omitted node %s (header %dB + first entry %dB) although the packet had %d of %d bytes", src, in.ID, hs, entrySize(in.Entries[0]), size, w.maxPacket)
			}
			_ = ii
			break
		}
		got := dl[pi]
		pi++
		if got.ID != in.ID {
			run.Fail("C13.prefix", "node-order", "%s emitted node %s where %s was intended", src, got.ID, in.ID)
			return
		}
		if len(got.Entries) > len(in.Entries) {
			run.Fail("C13.prefix", "extra-entries", "%s emitted %d entries of %s, intended %d", src, len(got.Entries), in.ID, len(in.Entries))
			return
		}
		for i, e := range got.Entries {
			if e != in.Entries[i] {
				run.Fail("C13.prefix", "not-a-prefix", "%s emitted entry %d of %s = %+v, intended %+v", src, i, in.ID, e, in.Entries[i])
				return
			}
		}
		if len(got.Entries) < len(in.Entries) {
			truncated = true
			next := in.Entries[len(got.Entries)]
			if size+entrySize(next) <= w.maxPacket {
				run.Fail("C13.maximal", "entry-omitted-but-fits", "%s stopped before entry v%d of %s (%dB) although the packet had %d of %d bytes", src, next.Version, in.ID, entrySize(next), size, w.maxPacket)
			}
			if pi < len(dl) {
				run.Fail("C13.prefix", "continues-after-truncation", "%s emitted node %s after truncating %s", src, dl[pi].ID, in.ID)
			}
			break
		}
	}
	if truncated {
		run.Probe("c13.delta_truncated")
	} else if pi < len(dl) {
		run.Fail("C13.prefix", "unintended-node", "%s emitted node %s that was not intended", src, dl[pi].ID)
	}
}

// msgpackWalk checks that b is a sequence of complete msgpack values and
// returns how many top-level values it holds. Independent of the codec library.
func msgpackWalk(b []byte) (int, bool) {
	n := 0
	for len(b) > 0 {
		rest, ok := msgpackSkip(b, 0)
		if !ok {
			return n, false
		}
		b = rest
		n++
	}
	return n, true
}

func msgpackSkip(b []byte, depth int) ([]byte, bool) {
	if len(b) == 0 || depth > 64 {
		return nil, false
	}
	c := b[0]
	b = b[1:]
	need := func(k int) bool { return len(b) >= k }
	be := func(k int) int {
		v := 0
		for i := 0; i < k; i++ {
			v = v<<8 | int(b[i])
		}
		return v
	}
	skipN := func(k int) ([]byte, bool) {
		if !need(k) {
			return nil, false
		}
		return b[k:], true
	}
	elems := func(k int) ([]byte, bool) {
		var ok bool
		for i := 0; i < k; i++ {
			if b, ok = msgpackSkip(b, depth+1); !ok {
				return nil, false
			}
		}
		return b, true
	}
	switch {
	case c <= 0x7f, c >= 0xe0, c == 0xc0, c == 0xc2, c == 0xc3:
		return b, true
	case c >= 0x80 && c <= 0x8f:
		return elems(2 * int(c&0x0f))
	case c >= 0x90 && c <= 0x9f:
		return elems(int(c & 0x0f))
	case c >= 0xa0 && c <= 0xbf:
		return skipN(int(c & 0x1f))
	case c == 0xc4 || c == 0xd9:
		if !need(1) {
			return nil, false
		}
		k := be(1)
		b = b[1:]
		return skipN(k)
	case c == 0xc5 || c == 0xda:
		if !need(2) {
			return nil, false
		}
		k := be(2)
		b = b[2:]
		return skipN(k)
	case c == 0xc6 || c == 0xdb:
		if !need(4) {
			return nil, false
		}
		k := be(4)
		b = b[4:]
		return skipN(k)
	case c == 0xcc || c == 0xd0:
		return skipN(1)
	case c == 0xcd || c == 0xd1:
		return skipN(2)
	case c == 0xce || c == 0xd2 || c == 0xca:
		return skipN(4)
	case c == 0xcf || c == 0xd3 || c == 0xcb:
		return skipN(8)
	case c == 0xdc:
		if !need(2) {
			return nil, false
		}
		k := be(2)
		b = b[2:]
		return elems(k)
	case c == 0xdd:
		if !need(4) {
			return nil, false
		}
		k := be(4)
		b = b[4:]
		return elems(k)
	case c == 0xde:
		if !need(2) {
			return nil, false
		}
		k := be(2)
		b = b[2:]
		return elems(2 * k)
	case c == 0xdf:
		if !need(4) {
			return nil, false
		}
		k := be(4)
		b = b[4:]
		return elems(2 * k)
	}
	return nil, false
}

// ------------------------------------------------------------ ground truth of own state

// absorbLocal records what the owner itself now publishes, after one of its
// own local writes. It is the "write log" every C02 rule refers to.
func (w *h1World) absorbLocal(x *h1Node) *NodeState {
	ns := x.g.LocalNode()
	for _, e := range ns.Entries {
		if e.Version > x.ver {
			x.log[e.Version] = e
			if e.Internal && e.Key == compactKey {
				x.lastMarker = e.Version
			}
		}
	}
	x.ver = ns.Version
	x.cur = map[string]Entry{}
	for _, e := range ns.Entries {
		x.cur[e.Key] = e
	}
	return ns
}

func entriesEqual(a map[string]Entry, ns *NodeState) bool {
	if len(a) != len(ns.Entries) {
		return false
	}
	for _, e := range ns.Entries {
		if a[e.Key] != e {
			return false
		}
	}
	return true
}

// ------------------------------------------------------------ C17: local ops against the LWW model

func (w *h1World) opUpsert(x *h1Node, key, value string) {
	run := w.run
	prev := x.ver
	m, exists := x.model[key]
	effective := !exists || m.deleted || m.value != value
	if exists && m.deleted {
		run.Probe("c17.recreate_deleted_key")
		if value == "" {
			run.Probe("c17.recreate_with_empty_value")
		}
	}
	x.g.UpsertLocal(key, value)
	if effective {
		x.model[key] = h1ModelEntry{value: value}
	}
	ns := w.absorbLocal(x)
	w.checkLWW(x, ns, prev, effective, "upsert", key)
}

func (w *h1World) opDelete(x *h1Node, key string) {
	prev := x.ver
	m, exists := x.model[key]
	effective := exists && !m.deleted
	x.g.DeleteLocal(key)
	if effective {
		x.model[key] = h1ModelEntry{deleted: true}
	} else {
		w.run.Probe("c17.noop_delete")
	}
	ns := w.absorbLocal(x)
	w.checkLWW(x, ns, prev, effective, "delete", key)
}

func (w *h1World) checkLWW(x *h1Node, ns *NodeState, prev uint64, effective bool, op, key string) {
	run := w.run
	if effective {
		if ns.Version <= prev {
			sig := "effective-write-no-version"
			if op == "upsert" && x.model[key].value == "" {
				sig = "upsert-empty-after-delete-dropped"
			}
			run.Fail("C17.version", sig, "n%d %s(%q) is an effective change but the version stayed %d", x.idx, op, key, prev)
		}
	} else if ns.Version != prev {
		run.Fail("C17.version", "noop-consumed-version", "n%d no-op %s(%q) moved the version %d -> %d", x.idx, op, key, prev, ns.Version)
	}
	seen := map[string]bool{}
	for _, e := range ns.Entries {
		if e.Internal {
			continue
		}
		seen[e.Key] = true
		m, ok := x.model[e.Key]
		if !ok {
			run.Fail("C17.lww", "phantom-key", "n%d publishes key %q that was never written", x.idx, e.Key)
			continue
		}
		if m.deleted != e.Deleted || (!m.deleted && m.value != e.Value) {
			sig := "wrong-value"
			if m.value == "" && !m.deleted && e.Deleted {
				sig = "upsert-empty-after-delete-dropped"
			}
			run.Fail("C17.lww", sig, "n%d key %q shows (%q, deleted=%v) after %s, model (%q, deleted=%v)", x.idx, e.Key, e.Value, e.Deleted, op, m.value, m.deleted)
		}
		if e.Version > ns.Version {
			run.Fail("C17.version", "entry-above-node-version", "n%d key %q v%d > node version %d", x.idx, e.Key, e.Version, ns.Version)
		}
		if e.Key == key && effective && e.Version != ns.Version {
			run.Fail("C17.version", "not-fresh", "n%d %s(%q) got version %d, node version %d", x.idx, op, key, e.Version, ns.Version)
		}
	}
	for k := range x.model {
		if !seen[k] {
			run.Fail("C17.lww", "lost-key", "n%d no longer publishes key %q (model deleted=%v) after %s(%q)", x.idx, k, x.model[k].deleted, op, key)
		}
	}
	// versions are unique
	vs := map[uint64]string{}
	for _, e := range ns.Entries {
		if o, dup := vs[e.Version]; dup {
			run.Fail("C17.version", "duplicate-version", "n%d keys %q and %q share version %d", x.idx, o, e.Key, e.Version)
		}
		vs[e.Version] = e.Key
	}
}

func (w *h1World) opCompact(x *h1Node, threshold int) {
	run := w.run
	before := x.g.LocalNode()
	prev := before.Version
	nDeleted := 0
	for _, e := range before.Entries {
		if e.Deleted {
			nDeleted++
		}
	}
	x.g.state.CompactLocal(threshold)
	ns := w.absorbLocal(x)
	happened := ns.Version != prev
	// live entries (incl. the internal left marker) unchanged and in the same order
	var liveB, liveA []Entry
	for _, e := range before.Entries {
		if !e.Deleted && !(e.Internal && e.Key == compactKey) {
			liveB = append(liveB, e)
		}
	}
	tomb := 0
	for _, e := range ns.Entries {
		if e.Deleted {
			tomb++
		} else if !(e.Internal && e.Key == compactKey) {
			liveA = append(liveA, e)
		}
	}
	if len(liveA) != len(liveB) {
		run.Fail("C17.compact", "live-set-changed", "n%d compaction changed the number of live entries %d -> %d", x.idx, len(liveB), len(liveA))
	} else {
		for i := range liveA {
			a, b := liveA[i], liveB[i]
			if a.Key != b.Key || a.Value != b.Value || a.Internal != b.Internal {
				run.Fail("C17.compact", "live-entry-changed", "n%d compaction: live entry #%d was %q=%q, now %q=%q", x.idx, i, b.Key, b.Value, a.Key, a.Value)
				break
			}
			if happened && a.Version <= prev {
				run.Fail("C17.compact", "not-reversioned", "n%d compaction kept %q at old version %d", x.idx, a.Key, a.Version)
				break
			}
		}
	}
	if happened {
		run.Probe("c17.compaction")
		if tomb != 0 {
			run.Fail("C17.compact", "tombstone-kept", "n%d compaction kept %d deletion markers", x.idx, tomb)
		}
		for k, m := range x.model {
			if m.deleted {
				delete(x.model, k)
			}
		}
		if x.left {
			run.Probe("c17.compaction_after_leave")
		}
	} else {
		if tomb != nDeleted {
			run.Fail("C17.compact", "partial", "n%d compaction did not happen but tombstones %d -> %d", x.idx, nDeleted, tomb)
		}
		if nDeleted > 0 && nDeleted >= threshold {
			run.Fail("C17.compact", "skipped", "n%d has %d deletion markers (threshold %d) but compaction did nothing", x.idx, nDeleted, threshold)
		}
	}
	w.checkLWW(x, ns, prev, happened, "compact", "")
}

// ------------------------------------------------------------ C02 / C14 / C11 invariants at quiescence

func (w *h1World) checkAll(localOpOn *h1Node) {
	run := w.run
	for _, o := range w.nodes {
		if !o.alive || o.g == nil {
			continue
		}
		// C02.own: received messages never change the node's own published state
		own := o.g.LocalNode()
		if own.Version != o.ver || !entriesEqual(o.cur, own) {
			if w.free != nil && w.isOwnCompaction(o, own) {
				// piko's own compaction ticker ran: a local write
				run.Probe("c17.ticker_compaction")
				for k, m := range o.model {
					if m.deleted {
						delete(o.model, k)
					}
				}
			} else {
				run.Fail("C02.own", "own-state-changed", "n%d's own state changed without a local write (version %d -> %d)", o.idx, o.ver, own.Version)
			}
			w.absorbLocal(o)
		}
		for _, id := range o.w.takeExpired() {
			if v := o.views[id]; v != nil {
				v.known = false // forgotten: monotonicity and stickiness tracking restart
				v.leftSeenSet = false
				v.expiredOnce = true
				w.noteGap(id)
			}
		}
		metas := o.g.state.Nodes()
		sort.Slice(metas, func(i, j int) bool { return metas[i].ID < metas[j].ID })
		known := map[string]bool{}
		for _, m := range metas {
			known[m.ID] = true
			if m.ID == o.id {
				if m.Unreachable {
					run.Fail("C11.local", "local-unreachable", "n%d marks itself unreachable", o.idx)
				}
				if m.Left != o.left {
					run.Fail("C11.local", "local-left-flag", "n%d shows itself left=%v but it %s", o.idx, m.Left, map[bool]string{true: "did leave", false: "never left"}[o.left])
				}
				continue
			}
			x := w.byID[m.ID]
			if x == nil {
				run.Fail("C02.authentic", "unknown-node", "n%d knows node %q that never existed", o.idx, m.ID)
				continue
			}
			ns, ok := o.g.state.Node(m.ID)
			if !ok {
				continue
			}
			w.checkView(o, x, ns)
		}
		if !known[o.id] {
			run.Fail("C11.local", "local-removed", "n%d removed itself from its own view", o.idx)
		}
		for id, v := range o.views {
			if !known[id] && v.known {
				v.known = false // forgotten (expired): monotonicity tracking restarts
				v.leftSeenSet = false
				v.expiredOnce = true
				w.noteGap(id)
			}
		}
		w.checkFold(o, metas)
	}
}

func (w *h1World) checkView(o, x *h1Node, ns *NodeState) {
	run := w.run
	v := ns.Version
	tag := fmt.Sprintf("n%d's view of n%d@%d (owner at %d)", o.idx, x.idx, v, x.ver)
	if v > x.ver {
		run.Fail("C02.bounded", "version-above-owner", "%s: version beyond anything the owner wrote", tag)
	}
	pv := o.views[x.id]
	if pv == nil {
		pv = &h1View{}
		o.views[x.id] = pv
	}
	if pv.known && v < pv.version {
		run.Fail("C02.monotone", "rollback", "%s: reported version moved backwards from %d", tag, pv.version)
	}
	if pv.known && pv.left && !ns.Left {
		run.Fail("C11.left-sticky", "left-flag-cleared", "%s: was shown as left, now shown as live", tag)
	}
	if ns.Left && ns.Expiry.IsZero() {
		run.Fail("C11.left-expire", "left-without-deadline", "%s: shown as left but holds no removal deadline, so it would never be forgotten", tag)
	}
	if ns.Left {
		// the removal deadline runs from the last departure announcement the
		// observer applied: a departed node that is still up (Leave is
		// synchronising, bounded by the grace period) may compact, which
		// re-versions its left marker, and piko restarts the deadline when it
		// applies the newer marker
		mv := uint64(0)
		for _, e := range ns.Entries {
			if e.Internal && e.Key == leftKey {
				mv = e.Version
			}
		}
		if !pv.leftSeenSet || mv != pv.leftMarkerVer {
			pv.leftSeenSet, pv.leftSeenAt, pv.leftMarkerVer = true, time.Now(), mv
		}
	}
	if ns.Left {
		if !x.left {
			run.Fail("C11.local", "declared-left-by-others", "%s: shown as left but it never left", tag)
		}
		pv.everLeft = true
	}
	pv.known, pv.version, pv.left = true, v, ns.Left
	have := map[string]Entry{}
	for _, e := range ns.Entries {
		have[e.Key] = e
		le, ok := x.log[e.Version]
		if !ok || le != e {
			run.Fail("C02.authentic", "fabricated-entry", "%s: entry %+v was never written by the owner (owner wrote %+v at that version)", tag, e, le)
		}
		if e.Version > v {
			run.Fail("C02.bounded", "entry-above-view-version", "%s: entry %q v%d above the reported version", tag, e.Key, e.Version)
		}
	}
	// prefix: every key whose latest write is at or below v shows exactly that write
	for k, ce := range x.cur {
		if ce.Version > v {
			continue
		}
		he, ok := have[k]
		if !ok {
			sig := "missing-entry"
			if pv.expiredOnce || w.gapPossible[x.id] {
				// F4: re-created after an expiry from a delta answering a pre-expiry digest
				sig = "missing-entry-after-expiry-relearn"
			}
			run.Fail("C02.prefix", sig, "%s: owner's %q=(%q,v%d,deleted=%v) is at or below the reported version but absent", tag, k, ce.Value, ce.Version, ce.Deleted)
		} else if he != ce {
			run.Fail("C02.prefix", "stale-entry", "%s: shows %q=(%q,v%d,deleted=%v), owner has (%q,v%d,deleted=%v)", tag, k, he.Value, he.Version, he.Deleted, ce.Value, ce.Version, ce.Deleted)
		}
	}
	// hidden: keys the owner compacted away may linger only below the last marker
	for k, he := range have {
		if _, ok := x.cur[k]; ok {
			continue
		}
		if v >= x.lastMarker {
			run.Fail("C02.hidden", "compacted-key-visible", "%s: still shows %q=(%q,v%d) which the owner compacted away (marker v%d)", tag, k, he.Value, he.Version, x.lastMarker)
		} else if !he.Deleted {
			run.Probe("c02.compaction_hides_unseen_delete")
		}
	}
	if v == x.ver {
		run.Probe("c02.caught_up_view")
	} else if v > 0 {
		run.Probe("c02.partial_view")
	}
}

// checkFold: C14 - the folded notifications equal the visible view.
func (w *h1World) checkFold(o *h1Node, metas []NodeMetadata) {
	run := w.run
	o.w.mu.Lock()
	defer o.w.mu.Unlock()
	seen := map[string]bool{}
	for _, m := range metas {
		if m.ID == o.id {
			continue
		}
		seen[m.ID] = true
		sh := o.w.nodes[m.ID]
		if sh == nil {
			run.Fail("C14.join-first", "no-join", "n%d knows %s but was never notified OnJoin", o.idx, m.ID)
			continue
		}
		if sh.left != m.Left {
			run.Fail("C14.flags", "left-mismatch", "n%d: %s left=%v in the view, %v by notifications", o.idx, m.ID, m.Left, sh.left)
		}
		if sh.unreachable != m.Unreachable {
			run.Fail("C14.flags", "unreachable-mismatch", "n%d: %s unreachable=%v in the view, %v by notifications", o.idx, m.ID, m.Unreachable, sh.unreachable)
		}
		ns, ok := o.g.state.Node(m.ID)
		if !ok {
			continue
		}
		vis := map[string]string{}
		for _, e := range ns.Entries {
			if !e.Internal && !e.Deleted {
				vis[e.Key] = e.Value
			}
		}
		for k, v := range vis {
			sv, ok := sh.kv[k]
			if !ok {
				run.Fail("C14.upsert", "missing-upsert", "n%d: %s/%q=%q is visible but was never announced", o.idx, m.ID, k, v)
			} else if sv != v {
				run.Fail("C14.upsert", "stale-upsert", "n%d: %s/%q=%q is visible, notifications say %q", o.idx, m.ID, k, v, sv)
			}
		}
		for k, sv := range sh.kv {
			if _, ok := vis[k]; !ok {
				run.Fail("C14.delete", "missing-delete", "n%d: %s/%q (=%q by notifications) is no longer visible but no delete was announced", o.idx, m.ID, k, sv)
			}
		}
	}
	for id := range o.w.nodes {
		if !seen[id] {
			run.Fail("C14.flags", "missing-expired", "n%d: %s is gone from the view but OnExpired was never announced", o.idx, id)
		}
	}
}

// isOwnCompaction: the only way a node's own state may change without the
// harness writing is piko's compaction ticker: same live entries, no
// tombstones, a newer marker.
func (w *h1World) isOwnCompaction(o *h1Node, own *NodeState) bool {
	marker := false
	live := map[string]string{}
	for _, e := range own.Entries {
		if e.Deleted {
			return false
		}
		if e.Internal && e.Key == compactKey {
			marker = e.Version > o.ver
			continue
		}
		if e.Version <= o.ver {
			return false
		}
		live[e.Key] = e.Value
	}
	if !marker {
		return false
	}
	n := 0
	for k, e := range o.cur {
		if e.Deleted || (e.Internal && e.Key == compactKey) {
			continue
		}
		n++
		if v, ok := live[k]; !ok || v != e.Value {
			return false
		}
	}
	return n == len(live)
}

// ------------------------------------------------------------ helpers

func (w *h1World) liveNodes() []*h1Node {
	var out []*h1Node
	for _, n := range w.nodes {
		if n.alive {
			out = append(out, n)
		}
	}
	return out
}

// members are the nodes C03 speaks about: running and not departed.
func (w *h1World) members() []*h1Node {
	var out []*h1Node
	for _, n := range w.nodes {
		if n.alive && !n.left && !n.crashed {
			out = append(out, n)
		}
	}
	return out
}

// canSettle: the convergence bound of the driven mode assumes that a digest of
// all nodes and at least one (largest) entry fit a packet.
func (w *h1World) canSettle(valmax int) bool {
	if !w.digestFits() {
		return false
	}
	big := Entry{Key: "k1000", Value: strings.Repeat("L", valmax+12), Version: 1 << 40}
	need := 2 + 2*headerSize(deltaHeader{NodeID: "n0", Addr: h1Addr(0), Entries: 1000}) + entrySize(big)
	return need <= w.maxPacket
}

// digestFits: a digest listing every node fits one packet. When it does not the
// sender shuffles and truncates it, so which unknown node a peer discovers in an
// exchange is a coin flip and no deterministic sweep bound applies.
func (w *h1World) digestFits() bool {
	var dg digest
	for i := 0; i < 6; i++ {
		dg = append(dg, digestEntry{ID: fmt.Sprintf("n%d", i), Addr: h1Addr(i), Version: 1 << 40, Left: true})
	}
	b, err := encodeDigest(digestHeader{NodeID: "n0", Addr: h1Addr(0), Request: true}, dg, 1<<20)
	return err == nil && len(b) <= w.maxPacket
}

// converged reports whether every live, non-left node's view of every live node
// equals that node's own state (C03). Returns a description of the first
// difference.
func (w *h1World) converged() (bool, string) {
	for _, o := range w.members() {
		for _, x := range w.members() {
			if o == x {
				continue
			}
			ns, ok := o.g.state.Node(x.id)
			if !ok {
				return false, fmt.Sprintf("n%d does not know n%d", o.idx, x.idx)
			}
			own := x.g.LocalNode()
			if ns.Version != own.Version {
				return false, fmt.Sprintf("n%d has n%d at version %d, owner at %d", o.idx, x.idx, ns.Version, own.Version)
			}
			if len(ns.Entries) != len(own.Entries) {
				return false, fmt.Sprintf("n%d has %d entries of n%d, owner %d", o.idx, len(ns.Entries), x.idx, len(own.Entries))
			}
			for i := range own.Entries {
				if ns.Entries[i] != own.Entries[i] {
					return false, fmt.Sprintf("n%d has %+v for n%d, owner %+v", o.idx, ns.Entries[i], x.idx, own.Entries[i])
				}
			}
			if ns.Left != own.Left {
				return false, fmt.Sprintf("n%d has n%d left=%v, owner %v", o.idx, x.idx, ns.Left, own.Left)
			}
		}
	}
	return true, ""
}

// outstanding counts entries observers still lack, and unknown (observer, owner) pairs.
func (w *h1World) outstanding() (entries, unknown int) {
	for _, o := range w.members() {
		for _, x := range w.members() {
			if o == x {
				continue
			}
			ns, ok := o.g.state.Node(x.id)
			var v uint64
			if !ok {
				unknown++
			} else {
				v = ns.Version
			}
			for _, e := range x.cur {
				if e.Version > v {
					entries++
				}
			}
		}
	}
	return
}

func h1Key(i int) string { return "k" + strconv.Itoa(i) }

func h1Value(kind, n int, salt int) string {
	switch kind % 5 {
	case 0:
		return ""
	case 1:
		return fmt.Sprintf("v%d", salt)
	case 2:
		return strings.Repeat("x", n%40) + strconv.Itoa(salt)
	case 3:
		return "ü€" + strconv.Itoa(salt) + strings.Repeat("é", n%12)
	default:
		return strings.Repeat("L", n) + strconv.Itoa(salt)
	}
}

func (w *h1World) noteGap(id string) {
	if w.gapPossible == nil {
		w.gapPossible = map[string]bool{}
	}
	w.gapPossible[id] = true
}
