//go:build verif

package gossip

import (
	"strings"
	"fmt"
	"sync"
	"testing/synctest"
	"time"

	"github.com/andydunstall/piko/verifsim/simkit"
	"github.com/andydunstall/piko/verifsim/simnet"
)

// Driven mode: piko's own tickers never fire (the interval is hours); the
// script decides every exchange, the fate of every datagram, every liveness
// evaluation, compaction, expiry sweep, join and leave.

const h1DrivenInterval = 1000 * time.Hour

// profile weights per property (index = op kind below)
var h1Ops = []string{"upsert", "delete", "compact", "round", "deliver", "drop", "dup", "flush", "join", "leave", "advance", "liveness", "expire", "addnode", "crash"}

var h1Profiles = map[string][]int{
	//        ups del cmp rnd dlv drp dup fls join lve adv liv exp add crash
	"C02": {18, 8, 5, 22, 30, 6, 5, 3, 2, 1, 1, 1, 1, 1, 1},
	"C03": {16, 8, 5, 20, 22, 10, 3, 2, 2, 1, 1, 0, 0, 1, 0},
	"C13": {24, 6, 4, 24, 30, 4, 3, 3, 2, 0, 0, 0, 0, 1, 0},
	"C14": {16, 12, 9, 22, 28, 5, 4, 3, 2, 1, 2, 2, 2, 1, 0},
	"C17": {34, 22, 14, 8, 10, 2, 1, 2, 1, 2, 0, 0, 0, 0, 0},
	"C11": {8, 4, 2, 20, 26, 6, 3, 3, 3, 5, 8, 5, 6, 1, 3},
}

func h1GenDriven(prop string) func(rng *simkit.Rand, tier string, idx int) *simkit.Case {
	return func(rng *simkit.Rand, tier string, idx int) *simkit.Case {
		c := &simkit.Case{Family: "h1.driven", Cfg: map[string]int64{}}
		nodes := rng.Range(2, 5)
		if tier == "thorough" {
			nodes = rng.Range(2, 6)
		}
		keys := rng.Range(1, 8)
		steps := rng.Range(20, 160)
		if tier == "thorough" {
			steps = rng.Range(20, 400)
			keys = rng.Range(1, 24)
		}
		// maximum packet size: from just above the headers to the default
		var mps int64
		switch rng.Intn(4) {
		case 0:
			mps = int64(rng.Range(150, 260)) // a couple of entries per packet
		case 1:
			mps = int64(rng.Range(260, 500))
		case 2:
			mps = int64(rng.Range(500, 1400))
		default:
			mps = 1400
		}
		if prop == "C13" || prop == "C14" {
			if rng.Intn(3) > 0 {
				mps = int64(rng.Range(140, 300))
			}
		}
		c.Cfg["nodes"] = int64(nodes)
		c.Cfg["keys"] = int64(keys)
		c.Cfg["max_packet"] = mps
		c.Cfg["valmax"] = int64(rng.Range(0, 60))
		c.Cfg["prejoin"] = int64(rng.Intn(3)) // 0: nobody knows anybody; 1: chain; 2: full mesh of joins
		c.Cfg["settle"] = 1
		if prop == "C03" && rng.Intn(6) == 0 {
			c.Family = "h1.driven.oversize"
			c.Cfg["oversize"] = 1
			if mps < 320 {
				c.Cfg["max_packet"] = int64(320 + rng.Intn(200))
			}
		}
		if prop == "C03" && idx%16 == 5 {
			// a large backlog: one owner publishes hundreds of keys before anybody
			// has synchronised, then everything must still converge
			c.Family = "h1.driven.bulk"
			c.Cfg = map[string]int64{"nodes": int64(rng.Range(2, 3)), "keys": int64(rng.Range(260, 700)), "max_packet": 1400, "valmax": int64(rng.Range(0, 20)),
				"prejoin": int64(rng.Range(0, 1)), "settle": 1}
			n := int(c.Cfg["keys"]) + rng.Intn(200)
			owner := rng.Intn(1 << 16)
			for i := 0; i < n; i++ {
				op := simkit.Op{K: "upsert", A: owner, B: i, C: 1 + rng.Intn(3)}
				if rng.Intn(10) == 0 {
					op = simkit.Op{K: "delete", A: owner, B: rng.Intn(i + 1)}
				}
				c.Script = append(c.Script, op)
				if rng.Intn(60) == 0 {
					c.Script = append(c.Script, simkit.Op{K: "round", A: rng.Intn(1 << 16), B: rng.Intn(1 << 16)}, simkit.Op{K: "flush"})
				}
			}
			return c
		}
		w := h1Profiles[prop]
		if w == nil {
			w = h1Profiles["C02"]
		}
		// swarm: switch some op kinds off in this run
		ww := append([]int(nil), w...)
		for i := range ww {
			if i != 3 && i != 4 && rng.Intn(6) == 0 {
				ww[i] = 0
			}
		}
		for i := 0; i < steps; i++ {
			k := rng.Weighted(ww)
			op := simkit.Op{K: h1Ops[k], A: rng.Intn(1 << 16), B: rng.Intn(1 << 16), C: rng.Intn(1 << 16)}
			switch op.K {
			case "advance":
				op.D = int64(time.Duration(rng.Range(1, 90)) * time.Second)
			case "compact":
				// threshold >= 1 (production uses 100: with no deletion marker the
				// code never compacts, and an empty state is never compacted)
				op.C = 1 + rng.Intn(3)
				if rng.Intn(10) == 0 {
					op.C = compactThreshold
				}
			case "upsert":
				if c.Cfg["oversize"] == 1 && rng.Intn(12) == 0 {
					op.S = "OVERSIZE"
				}
			}
			c.Script = append(c.Script, op)
		}
		// motifs: short targeted sequences spliced in at a random position, so that
		// rare orderings (suspected, then departed, then heard again; expiry right
		// after a relay) are reached far more often than by independent draws
		if prop == "C11" || prop == "C14" || rng.Intn(4) == 0 {
			a, b := rng.Intn(1<<16), rng.Intn(1<<16)
			sec := func(lo, hi int) int64 { return int64(time.Duration(rng.Range(lo, hi)) * time.Second) }
			motifs := [][]simkit.Op{
				{{K: "round", A: a, B: b}, {K: "flush"}, {K: "advance", D: sec(5, 9)}, {K: "liveness", A: a}, {K: "round", A: a, B: b}, {K: "deliver", A: 0},
					{K: "leave", A: b, B: 1}, {K: "flush"}, {K: "liveness", A: a}, {K: "advance", D: sec(61, 80)}, {K: "expire", A: a}},
				{{K: "round", A: a, B: b}, {K: "flush"}, {K: "advance", D: sec(5, 9)}, {K: "liveness", A: a}, {K: "leave", A: b, B: rng.Intn(2)}, {K: "flush"}, {K: "liveness", A: a}},
				{{K: "round", A: a, B: b}, {K: "flush"}, {K: "advance", D: sec(5, 9)}, {K: "liveness", A: a}, {K: "round", A: b, B: a}, {K: "flush"}, {K: "liveness", A: a},
					{K: "advance", D: sec(61, 80)}, {K: "expire", A: a}, {K: "round", A: a, B: b}, {K: "flush"}},
				{{K: "crash", A: b}, {K: "advance", D: sec(5, 9)}, {K: "liveness", A: a}, {K: "advance", D: sec(61, 80)}, {K: "expire", A: a}, {K: "round", A: a, B: b}, {K: "flush"}, {K: "expire", A: a + 1}, {K: "flush"}},
			}
			m := motifs[rng.Intn(len(motifs))]
			at := rng.Intn(len(c.Script) + 1)
			c.Script = append(c.Script[:at:at], append(m, c.Script[at:]...)...)
		}
		return c
	}
}

func h1ExecDriven(run *simkit.Run) {
	c := run.Case
	w := newH1World(run, c.Int("nodes"), c.Int("max_packet"), h1DrivenInterval, true, simnet.Config{})
	w.oversize = c.On("oversize")
	defer func() {
		w.nw.Intercept = func(string, string, []byte) bool { return true }
		w.emitChecks = false
		w.closeAll()
	}()
	if run.Stop() {
		return
	}
	keys := c.Int("keys")
	if keys < 1 {
		keys = 1
	}
	salt := 0
	for _, nd := range w.nodes {
		w.absorbLocal(nd)
	}
	// initial topology
	switch c.Int("prejoin") {
	case 1:
		for i := 1; i < len(w.nodes); i++ {
			w.nodes[i].g.Join([]string{w.nodes[i-1].addr})
		}
	case 2:
		for i := range w.nodes {
			for j := range w.nodes {
				if i != j {
					w.nodes[i].g.Join([]string{w.nodes[j].addr})
				}
			}
		}
	}
	synctest.Wait()
	w.checkAll(nil)

	pick := func(a int, ok func(*h1Node) bool) *h1Node {
		var cand []*h1Node
		for _, n := range w.nodes {
			if ok(n) {
				cand = append(cand, n)
			}
		}
		if len(cand) == 0 {
			return nil
		}
		return cand[a%len(cand)]
	}
	alive := func(n *h1Node) bool { return n.alive }
	writable := func(n *h1Node) bool { return n.alive && !n.left }

	for i, op := range c.Script {
		if run.Stop() {
			break
		}
		run.Step = i
		run.Steps++
		switch op.K {
		case "upsert":
			if x := pick(op.A, writable); x != nil {
				salt++
				val := h1Value(op.C, c.Int("valmax"), salt)
				if op.S == "OVERSIZE" {
					val = h1Value(4, c.Int("max_packet")+50, salt)
					run.Probe("c03.oversize_entry_written")
				}
				run.Logf("n%d upsert %s=%q", x.idx, h1Key(op.B%keys), trunc(val))
				w.opUpsert(x, h1Key(op.B%keys), val)
			}
		case "delete":
			if x := pick(op.A, writable); x != nil {
				run.Logf("n%d delete %s", x.idx, h1Key(op.B%keys))
				w.opDelete(x, h1Key(op.B%keys))
			}
		case "compact":
			if x := pick(op.A, alive); x != nil {
				run.Logf("n%d compact(threshold %d)", x.idx, op.C)
				w.opCompact(x, op.C)
			}
		case "round":
			if x := pick(op.A, alive); x != nil {
				var peers []NodeMetadata
				for _, m := range x.g.state.Nodes() {
					if m.ID != x.id && !m.Left {
						peers = append(peers, m)
					}
				}
				sortMeta(peers)
				if len(peers) > 0 {
					p := peers[op.B%len(peers)]
					run.Logf("n%d round with %s", x.idx, p.ID)
					_ = x.g.gossip(p)
				}
			}
		case "deliver":
			if p := w.takePending(op.A, true); p != nil {
				run.Logf("deliver #%d %s->%s type=%d len=%d", p.seq, p.src, p.dst, p.b[0], len(p.b))
				w.deliver(p)
			}
		case "drop":
			if p := w.takePending(op.A, true); p != nil {
				run.Fault("pkt_drop")
				run.Logf("drop #%d %s->%s", p.seq, p.src, p.dst)
			}
		case "dup":
			if p := w.takePending(op.A, false); p != nil {
				run.Fault("pkt_dup")
				run.Logf("dup #%d %s->%s type=%d", p.seq, p.src, p.dst, p.b[0])
				w.deliver(p)
			}
		case "flush":
			w.flush(64)
		case "join":
			a := pick(op.A, alive)
			b := pick(op.B, alive)
			if a != nil && b != nil && a != b {
				run.Logf("n%d join n%d", a.idx, b.idx)
				before := metaMap(a.g.state.Nodes())
				_, err := a.g.Join([]string{b.addr})
				synctest.Wait()
				_ = err
				w.checkJoinRelearn(a, b, before)
			}
		case "leave":
			if x := pick(op.A, writable); x != nil && len(w.liveNodes()) > 2 {
				run.Logf("n%d leave", x.idx)
				x.left = true
				_ = x.g.Leave()
				synctest.Wait()
				w.absorbLocal(x)
				run.Probe("c11.leave")
				if op.B%2 == 0 {
					x.g.Close()
					x.alive = false
					run.Logf("n%d closed after leave", x.idx)
				}
			}
		case "advance":
			run.Logf("advance %v", time.Duration(op.D))
			if time.Duration(op.D) >= 10*time.Second {
				// datagrams do not survive in the network for tens of seconds: a
				// packet older than that is lost, not delivered after an expiry
				w.mu.Lock()
				if n := len(w.pend); n > 0 {
					run.Fault("pkt_lost_too_old")
				}
				w.pend = nil
				w.mu.Unlock()
			}
			time.Sleep(time.Duration(op.D))
		case "liveness":
			if x := pick(op.A, alive); x != nil {
				run.Logf("n%d update liveness", x.idx)
				x.g.state.UpdateLiveness(float64(suspicionThreshold))
			}
		case "expire":
			if x := pick(op.A, alive); x != nil {
				w.opExpire(x)
			}
		case "addnode":
			if len(w.nodes) < 6 {
				nd := w.addNode()
				w.absorbLocal(nd)
				run.Logf("added n%d", nd.idx)
				if t := pick(op.A, func(n *h1Node) bool { return n.alive && n != nd }); t != nil {
					nd.g.Join([]string{t.addr})
					synctest.Wait()
				}
				run.Probe("late_joiner")
			}
		case "crash":
			if x := pick(op.A, alive); x != nil && len(w.liveNodes()) > 2 {
				run.Logf("n%d crash", x.idx)
				w.nw.Crash(fmt.Sprintf("10.0.0.%d", x.idx+1), true)
				x.alive, x.crashed = false, true
			}
		}
		synctest.Wait()
		w.checkAll(nil)
	}
	if !run.Stop() && c.On("settle") {
		if w.canSettle(c.Int("valmax")) || (w.oversize && w.digestFits()) {
			w.settle()
		} else {
			run.Probe("c03.settle_skipped_small_packets")
		}
	}
	if w.nonTrivial() {
		run.Probe("nontrivial")
	}
	run.Summary = fmt.Sprintf("driven nodes=%d keys=%d max_packet=%d steps=%d first=%v", len(w.nodes), keys, c.Int("max_packet"), len(c.Script), firstOps(c.Script, 6))
}

func (w *h1World) nonTrivial() bool {
	r := w.run
	return r.ProbeCount("c02.partial_view") > 0 || r.ProbeCount("c13.delta_truncated") > 0 || r.ProbeCount("c17.compaction") > 0 ||
		r.ProbeCount("c02.caught_up_view") > 2
}

func firstOps(s []simkit.Op, n int) []string {
	var out []string
	for i := 0; i < len(s) && i < n; i++ {
		out = append(out, s[i].String())
	}
	return out
}

func trunc(s string) string {
	if len(s) > 16 {
		return s[:16] + fmt.Sprintf("..(%d)", len(s))
	}
	return s
}

func sortMeta(ms []NodeMetadata) {
	for i := 1; i < len(ms); i++ {
		for j := i; j > 0 && ms[j].ID < ms[j-1].ID; j-- {
			ms[j], ms[j-1] = ms[j-1], ms[j]
		}
	}
}

// flush delivers pending packets (and the responses they cause) in FIFO order.
func (w *h1World) flush(max int) int {
	n := 0
	for n < max {
		p := w.takePending(0, true)
		if p == nil {
			break
		}
		w.deliver(p)
		n++
		if w.run.Stop() {
			break
		}
	}
	return n
}

// checkJoinRelearn: a join reply may announce departed nodes, but only as departed.
func (w *h1World) checkJoinRelearn(a, b *h1Node, before map[string]NodeMetadata) {
	bLeft := map[string]bool{}
	for _, m := range b.g.state.Nodes() {
		if m.Left {
			bLeft[m.ID] = true
		}
	}
	for id, m := range metaMap(a.g.state.Nodes()) {
		if _, had := before[id]; had {
			continue
		}
		x := w.byID[id]
		if x != nil && x.left && !m.Left && bLeft[id] {
			w.run.Fail("C11.left-no-relearn", "relearn-live-from-aware-peer", "n%d learnt left node %s as live while joining n%d, which knows it left", a.idx, id, b.idx)
		}
	}
}

// opExpire runs the expiry sweep and checks exactly the due nodes are forgotten.
func (w *h1World) opExpire(x *h1Node) {
	run := w.run
	now := time.Now()
	before := x.g.state.Nodes()
	x.g.state.RemoveExpired()
	after := metaMap(x.g.state.Nodes())
	for _, m := range before {
		due := !m.Expiry.IsZero() && now.After(m.Expiry)
		_, still := after[m.ID]
		if due && still {
			run.Fail("C11.left-expire", "not-forgotten", "n%d kept %s after its expiry", x.idx, m.ID)
		}
		if !due && !still {
			sig := "forgotten-early"
			if m.ID == x.id {
				sig = "local-removed"
			}
			run.Fail("C11.local", sig, "n%d forgot %s although no expiry was due (left=%v unreachable=%v)", x.idx, m.ID, m.Left, m.Unreachable)
		}
		if v := x.views[m.ID]; still && v != nil && v.known && v.leftSeenSet && now.Sub(v.leftSeenAt) > nodeExpiry+time.Second {
			run.Fail("C11.left-expire", "left-node-not-forgotten", "n%d still knows departed %s after an expiry sweep %v after it learnt of the departure", x.idx, m.ID, now.Sub(v.leftSeenAt))
		}
		if due && !still {
			run.Probe("c11.expired")
			run.Logf("n%d expired %s", x.idx, m.ID)
		}
	}
}

// settle: C03 in driven mode. Updates and faults have stopped; fair sweeps over
// all ordered pairs with reliable delivery must converge within the bound.
func (w *h1World) settle() {
	run := w.run
	// anything still in flight is lost (earlier loss), then exchanges are reliable
	w.mu.Lock()
	w.pend = nil
	w.mu.Unlock()
	live := w.members()
	if len(live) < 2 {
		return
	}
	// nodes that nobody knows and that know nobody cannot be reached by gossip
	// alone: (re)introduce them the way an operator would, through a join.
	for i := 1; i < len(live); i++ {
		if _, ok := live[i].g.state.Node(live[0].id); !ok {
			live[i].g.Join([]string{live[0].addr})
			synctest.Wait()
		}
	}
	entries, unknown := w.outstanding()
	bound := entries + unknown + len(live)*len(live) + 2
	run.Logf("settle: %d live nodes, %d entries outstanding, %d unknown pairs, bound %d sweeps", len(live), entries, unknown, bound)
	sweeps := 0
	for ; sweeps < bound; sweeps++ {
		if ok, _ := w.converged(); ok {
			break
		}
		e0, u0 := w.outstanding()
		for _, a := range live {
			for _, b := range live {
				if a == b {
					continue
				}
				if m, ok := findMeta(a.g.state.Nodes(), b.id); ok && !m.Left {
					_ = a.g.gossip(m)
					w.flush(16)
				}
			}
		}
		w.checkAll(nil)
		if run.Stop() {
			return
		}
		e1, u1 := w.outstanding()
		if e1+u1 >= e0+u0 && e0+u0 > 0 {
			if ok, why := w.converged(); !ok {
				run.Logf("no progress: %s; %s", why, w.membershipString())
				if w.oversize && w.stuckOnOversize() {
					run.Fail("C03.progress", "entry-cannot-fit-any-packet", "a full fair sweep transferred nothing: an entry larger than the packet size blocks the node's later versions")
				} else {
					run.Fail("C03.progress", "no-progress", "a full fair sweep with reliable delivery transferred nothing (%d entries, %d unknown pairs outstanding)", e1, u1)
				}
				return
			}
		}
	}
	if ok, why := w.converged(); !ok {
		run.Fail("C03.converge", "not-converged", "after %d fair sweeps: %s", sweeps, why)
		return
	}
	run.Probe("c03.converged")
	run.ProbeN("c03.sweeps", sweeps)
	if entries > 0 {
		run.Probe("c03.converged_from_divergent_state")
	}
}

func findMeta(ms []NodeMetadata, id string) (NodeMetadata, bool) {
	for _, m := range ms {
		if m.ID == id {
			return m, true
		}
	}
	return NodeMetadata{}, false
}

// stuckOnOversize: some owner's next outstanding entry (for some observer) does
// not fit an empty delta packet.
func (w *h1World) stuckOnOversize() bool {
	for _, o := range w.members() {
		for _, x := range w.members() {
			if o == x {
				continue
			}
			ns, ok := o.g.state.Node(x.id)
			if !ok {
				continue
			}
			var next *Entry
			for _, e := range x.g.LocalNode().Entries {
				if e.Version > ns.Version {
					e := e
					next = &e
					break
				}
			}
			if next == nil {
				continue
			}
			overhead := 2 + headerSize(deltaHeader{NodeID: x.id, Addr: x.addr}) + headerSize(deltaHeader{NodeID: x.id, Addr: x.addr, Entries: 1})
			if overhead+entrySize(*next) > w.maxPacket {
				return true
			}
		}
	}
	return false
}

// Concurrent local writers (C17): goroutines write disjoint key sets of one
// node while another goroutine compacts, under the seeded scheduler with lock
// yields. At quiescence every key must show its writer's last write.
func h1GenConcurrent(rng *simkit.Rand, tier string, idx int) *simkit.Case {
	c := &simkit.Case{Family: "h1.concurrent", Cfg: map[string]int64{}}
	c.Cfg["writers"] = int64(rng.Range(1, 4))
	c.Cfg["ops"] = int64(rng.Range(4, 40))
	c.Cfg["keys"] = int64(rng.Range(1, 4))
	c.Cfg["compactions"] = int64(rng.Range(1, 12))
	c.Cfg["yield_den"] = []int64{2, 2, 8, 64}[rng.Intn(4)]
	c.Cfg["max_packet"] = 1400
	c.Cfg["nodes"] = 2
	return c
}

func h1ExecConcurrent(run *simkit.Run) {
	c := run.Case
	w := newH1World(run, 2, 1400, h1DrivenInterval, true, simnet.Config{})
	defer func() {
		w.nw.Intercept = func(string, string, []byte) bool { return true }
		w.emitChecks = false
		w.closeAll()
	}()
	if run.Stop() {
		return
	}
	x := w.nodes[0]
	type last struct {
		value   string
		deleted bool
	}
	writers := c.Int("writers")
	final := make([]map[string]last, writers)
	var wg sync.WaitGroup
	for wi := 0; wi < writers; wi++ {
		final[wi] = map[string]last{}
		wg.Add(1)
		go func(wi int, rng *simkit.Rand) {
			defer wg.Done()
			for k := 0; k < c.Int("ops"); k++ {
				key := fmt.Sprintf("w%d-k%d", wi, rng.Intn(c.Int("keys")))
				if rng.Intn(3) == 0 {
					x.g.DeleteLocal(key)
					if l, ok := final[wi][key]; ok && !l.deleted {
						final[wi][key] = last{deleted: true}
					}
				} else {
					v := fmt.Sprintf("v%d-%d", wi, k)
					x.g.UpsertLocal(key, v)
					final[wi][key] = last{value: v}
				}
				if rng.Intn(4) == 0 {
					time.Sleep(time.Microsecond)
				}
			}
		}(wi, run.Aux.Fork())
	}
	wg.Add(1)
	go func(rng *simkit.Rand) {
		defer wg.Done()
		for k := 0; k < c.Int("compactions"); k++ {
			x.g.state.CompactLocal(1)
			if rng.Intn(2) == 0 {
				time.Sleep(time.Microsecond)
			}
		}
	}(run.Aux.Fork())
	wg.Wait()
	synctest.Wait()
	ns := x.g.LocalNode()
	have := map[string]Entry{}
	vs := map[uint64]string{}
	for _, e := range ns.Entries {
		have[e.Key] = e
		if o, dup := vs[e.Version]; dup {
			run.Fail("C17.version", "duplicate-version", "keys %q and %q share version %d after concurrent writes", o, e.Key, e.Version)
		}
		vs[e.Version] = e.Key
		if e.Version > ns.Version {
			run.Fail("C17.version", "entry-above-node-version", "key %q v%d > node version %d", e.Key, e.Version, ns.Version)
		}
	}
	for wi := range final {
		for key, l := range final[wi] {
			e, ok := have[key]
			switch {
			case l.deleted:
				// a deleted key shows a tombstone or has been compacted away
				if ok && !e.Deleted {
					run.Fail("C17.lww", "concurrent-delete-undone", "key %q was last deleted by its writer but shows %q", key, e.Value)
				}
			case !ok || e.Deleted:
				run.Fail("C17.lww", "concurrent-write-lost", "key %q was last written %q by its writer but is %s", key, l.value, map[bool]string{true: "deleted", false: "absent"}[ok])
			case e.Value != l.value:
				run.Fail("C17.lww", "concurrent-write-rolled-back", "key %q was last written %q by its writer but shows %q", key, l.value, e.Value)
			}
		}
	}
	for key, e := range have {
		if e.Internal {
			continue
		}
		found := false
		for wi := range final {
			if _, ok := final[wi][key]; ok {
				found = true
			}
		}
		if !found && !e.Deleted {
			// deleted-before-ever-written keys never appear; anything else is phantom
			run.Fail("C17.lww", "phantom-key", "key %q=%q was never written", key, e.Value)
		}
	}
	// an observer that synchronises afterwards ends up with the same state
	w.absorbLocal(x)
	w.absorbLocal(w.nodes[1])
	w.nodes[1].g.Join([]string{x.addr})
	synctest.Wait()
	if ok, why := w.converged(); !ok {
		run.Fail("C03.converge", "after-concurrent-writes", "%s", why)
	}
	_, _, yields := simkit.SchedStats()
	if yields > 0 {
		run.Probe("nontrivial")
	}
	run.Probe("c17.concurrent_run")
	run.Summary = fmt.Sprintf("concurrent local writers=%d ops=%d compactions=%d yield=1/%d", writers, c.Int("ops"), c.Int("compactions"), c.Int("yield_den"))
}

func init() {
	simkit.Register(&simkit.Prop{ID: "C17", Exec: func(run *simkit.Run) {
		switch run.Case.Family {
		case "h1.concurrent":
			h1ExecConcurrent(run)
		case "h1.linear":
			h1ExecLinear(run)
		default:
			h1ExecDriven(run)
		}
	}, Gen: func(rng *simkit.Rand, tier string, idx int) *simkit.Case {
		if idx%4 == 3 {
			return h1GenConcurrent(rng, tier, idx)
		}
		if idx%4 == 1 {
			return h1GenLinear(rng, tier, idx)
		}
		return h1GenDriven("C17")(rng, tier, idx)
	}})
}

func (w *h1World) membershipString() string {
	var sb strings.Builder
	for _, n := range w.nodes {
		if n.g == nil {
			continue
		}
		fmt.Fprintf(&sb, "n%d(alive=%v left=%v):", n.idx, n.alive, n.left)
		for _, m := range n.g.state.Nodes() {
			fmt.Fprintf(&sb, " %s@v%d", m.ID, m.Version)
			if m.Left {
				sb.WriteString("L")
			}
			if m.Unreachable {
				sb.WriteString("U")
			}
		}
		sb.WriteString("; ")
	}
	return sb.String()
}
