//go:build verif

package gossip

import (
	"bytes"
	"fmt"
	"io"
	"net"
	"strings"
	"testing/synctest"
	"time"

	"github.com/andydunstall/piko/verifsim/simkit"
	"github.com/andydunstall/piko/verifsim/simnet"
)

// C13 hostile family: malformed, truncated, mutated and forged datagrams and
// streams are presented to real nodes. Oracles: no crash (a panic kills the
// worker and is reported with the seed), the node keeps serving (a synthetic
// well-formed peer still gets answers; stalled streams are dropped at the
// stream timeout on the virtual clock) and its own published state is
// untouched. Gossip is unauthenticated, so what a forged packet says about
// *other* nodes is not judged here.

type rawHeader struct {
	NodeID  string `codec:"node_id"`
	Addr    string `codec:"addr"`
	Entries int64  `codec:"entries"`
}

func c13GenHostile(rng *simkit.Rand, tier string, idx int) *simkit.Case {
	c := &simkit.Case{Family: "c13.hostile", Cfg: map[string]int64{}}
	c.Cfg["nodes"] = int64(rng.Range(2, 3))
	c.Cfg["max_packet"] = int64([]int{160, 300, 700, 1400}[rng.Intn(4)])
	c.Cfg["keys"] = int64(rng.Range(1, 6))
	n := rng.Range(8, 50)
	kinds := []string{"write", "exchange", "mutate", "garbage", "forge", "stream", "count"}
	w := []int{10, 12, 30, 10, 16, 8, 10}
	for i := 0; i < n; i++ {
		op := simkit.Op{K: kinds[rng.Weighted(w)], A: rng.Intn(1 << 16), B: rng.Intn(1 << 16), C: rng.Intn(1 << 16)}
		c.Script = append(c.Script, op)
	}
	return c
}

func c13ExecHostile(run *simkit.Run) {
	c := run.Case
	w := newH1World(run, c.Int("nodes"), c.Int("max_packet"), h1DrivenInterval, true, simnet.Config{})
	w.emitChecks = false // emitted packets are judged in the driven family; here inputs are hostile
	defer func() {
		w.nw.Intercept = func(string, string, []byte) bool { return true }
		w.closeAll()
	}()
	if run.Stop() {
		return
	}
	for _, nd := range w.nodes {
		w.absorbLocal(nd)
	}
	for i := 1; i < len(w.nodes); i++ {
		w.nodes[i].g.Join([]string{w.nodes[0].addr})
	}
	synctest.Wait()
	keys := c.Int("keys")
	salt := 0
	rng := run.Aux
	probeAddr := "10.0.0.99:8003"
	var corpus [][]byte // valid packets seen so far
	collect := func() {
		w.mu.Lock()
		for _, p := range w.pend {
			if len(corpus) < 64 {
				corpus = append(corpus, p.b)
			}
		}
		w.mu.Unlock()
	}
	// alive: a synthetic, well-formed peer still gets an answer from the node
	alive := func(nd *h1Node, why string) {
		run.Probe("c13.hostile_inputs")
		w.mu.Lock()
		w.pend = nil
		w.mu.Unlock()
		b, _ := encodeDigest(digestHeader{NodeID: "probe", Addr: probeAddr, Request: true}, digest{{ID: "probe", Addr: probeAddr, Version: 0}}, 1<<16)
		w.nw.Inject(probeAddr, nd.addr, b)
		synctest.Wait()
		got := 0
		w.mu.Lock()
		for _, p := range w.pend {
			if p.src == nd.addr && p.dst == probeAddr {
				got++
			}
		}
		w.pend = nil
		w.mu.Unlock()
		if got == 0 {
			run.Fail("C13.no-hang", "packet-loop-dead", "n%d no longer answers a well-formed digest after %s", nd.idx, why)
		}
		// and its own state is what it was
		own := nd.g.LocalNode()
		if own.Version != nd.ver || !entriesEqual(nd.cur, own) {
			run.Fail("C13.own", "own-state-changed", "n%d's own published state changed after %s (version %d -> %d)", nd.idx, why, nd.ver, own.Version)
			w.absorbLocal(nd)
		}
		if m := nd.g.state.LocalNodeMetadata(); m.Left != nd.left || m.Unreachable {
			run.Fail("C13.own", "own-flags-changed", "n%d's own flags changed after %s (left=%v unreachable=%v)", nd.idx, why, m.Left, m.Unreachable)
		}
	}
	target := func(a int) *h1Node { return w.nodes[a%len(w.nodes)] }
	for i, op := range c.Script {
		if run.Stop() {
			break
		}
		run.Step = i
		run.Steps++
		nd := target(op.A)
		switch op.K {
		case "write":
			salt++
			if op.C%4 == 0 {
				w.opDelete(nd, h1Key(op.B%keys))
			} else {
				w.opUpsert(nd, h1Key(op.B%keys), h1Value(op.C, 30, salt))
			}
		case "exchange":
			peer := target(op.A + 1 + op.B%len(w.nodes))
			if peer != nd {
				if m, ok := findMeta(nd.g.state.Nodes(), peer.id); ok {
					_ = nd.g.gossip(m)
					collect()
					for k := 0; k < 4; k++ {
						if p := w.takePending(0, true); p != nil {
							w.nw.Inject(p.src, p.dst, p.b)
							synctest.Wait()
							collect()
						}
					}
				}
			}
		case "mutate":
			if len(corpus) == 0 {
				continue
			}
			b := append([]byte(nil), corpus[op.B%len(corpus)]...)
			mode := op.C % 6
			switch mode {
			case 0: // truncate at any byte
				b = b[:rng.Intn(len(b)+1)]
			case 1: // flip bits
				for k := 0; k < 1+rng.Intn(4) && len(b) > 0; k++ {
					b[rng.Intn(len(b))] ^= 1 << uint(rng.Intn(8))
				}
			case 2: // overwrite a span with noise
				if len(b) > 2 {
					s := 2 + rng.Intn(len(b)-2)
					for k := s; k < len(b) && k < s+1+rng.Intn(16); k++ {
						b[k] = byte(rng.Intn(256))
					}
				}
			case 3: // wrong type / version bytes
				if len(b) >= 2 {
					b[rng.Intn(2)] = byte(rng.Intn(256))
				}
			case 4: // append noise
				for k := 0; k < 1+rng.Intn(40); k++ {
					b = append(b, byte(rng.Intn(256)))
				}
			case 5: // inflate every small length/count byte candidate
				for k := 2; k < len(b); k++ {
					if b[k] >= 0x90 && b[k] <= 0x9f && rng.Intn(3) == 0 {
						b[k] = 0xdd // array32 with whatever follows as length
					}
				}
			}
			run.Fault("hostile_mutated_packet")
			run.Logf("mutated packet mode=%d len=%d -> n%d", mode, len(b), nd.idx)
			w.nw.Inject("10.0.0.66:8003", nd.addr, b)
			synctest.Wait()
			alive(nd, fmt.Sprintf("a mutated packet (mode %d)", mode))
		case "garbage":
			n := rng.Intn(c.Int("max_packet") + 300)
			b := make([]byte, n)
			for k := range b {
				b[k] = byte(rng.Intn(256))
			}
			if n >= 2 && op.C%2 == 0 {
				b[0], b[1] = byte(1+rng.Intn(2)), 0
			}
			run.Fault("hostile_garbage_packet")
			w.nw.Inject("10.0.0.66:8003", nd.addr, b)
			synctest.Wait()
			alive(nd, "a garbage packet")
		case "forge":
			// well-formed but lying: entries about the receiver itself, malformed
			// compaction values, absurd versions, departure of the receiver
			var buf bytes.Buffer
			buf.WriteByte(byte(messageTypeDelta))
			buf.WriteByte(supportedVersion)
			enc := newEncoder(&buf)
			_ = enc.Encode(&rawHeader{NodeID: "ghost", Addr: "10.0.0.66:8003"})
			subject := nd.id
			if op.C%5 == 0 {
				subject = "ghost"
			}
			var es []Entry
			ver := nd.ver + uint64(1+rng.Intn(5))
			for k := 0; k < 1+rng.Intn(4); k++ {
				e := Entry{Key: h1Key(rng.Intn(keys + 1)), Value: "FORGED", Version: ver}
				switch rng.Intn(6) {
				case 0:
					e = Entry{Key: leftKey, Version: ver, Internal: true}
				case 1:
					e = Entry{Key: compactKey, Value: []string{"", "abc", "-1", "18446744073709551615", "99999999999999999999999"}[rng.Intn(5)], Version: ver, Internal: true}
				case 2:
					e.Deleted = true
				case 3:
					e.Version = 1 << 63
				}
				es = append(es, e)
				ver++
			}
			_ = enc.Encode(&rawHeader{NodeID: subject, Addr: nd.addr, Entries: int64(len(es))})
			for _, e := range es {
				_ = enc.Encode(e)
			}
			run.Fault("hostile_forged_delta")
			run.Logf("forged delta about %s -> n%d (%d entries)", subject, nd.idx, len(es))
			w.nw.Inject("10.0.0.66:8003", nd.addr, buf.Bytes())
			synctest.Wait()
			alive(nd, "a forged delta about "+subject)
		case "count":
			// a per-node entry count that lies: negative, huge, larger than the payload
			var buf bytes.Buffer
			buf.WriteByte(byte(messageTypeDelta))
			buf.WriteByte(supportedVersion)
			enc := newEncoder(&buf)
			_ = enc.Encode(&rawHeader{NodeID: "ghost", Addr: "10.0.0.66:8003"})
			cnt := []int64{-1, -1 << 63, 1 << 62, 1 << 31, 1 << 20, 3, 0}[op.C%7]
			_ = enc.Encode(&rawHeader{NodeID: "ghost2", Addr: "10.0.0.67:8003", Entries: cnt})
			_ = enc.Encode(Entry{Key: "k", Value: "v", Version: 1})
			run.Fault("hostile_entry_count")
			run.Logf("delta with entry count %d -> n%d", cnt, nd.idx)
			w.nw.Inject("10.0.0.66:8003", nd.addr, buf.Bytes())
			synctest.Wait()
			alive(nd, fmt.Sprintf("a delta announcing %d entries", cnt))
		case "stream":
			if op.C%9 == 8 {
				w.stalledReader(nd)
				alive(nd, "a peer that never reads the join reply")
				continue
			}
			w.hostileStream(nd, op.C%8, rng)
			alive(nd, "a hostile stream")
		}
		synctest.Wait()
	}
	if run.ProbeCount("c13.hostile_inputs") > 0 {
		run.Probe("nontrivial")
	}
	run.Summary = fmt.Sprintf("hostile nodes=%d max_packet=%d ops=%d first=%v", len(w.nodes), c.Int("max_packet"), len(c.Script), firstOps(c.Script, 5))
}

// stalledReader: a peer sends a well-formed join and then never reads the
// reply, over a connection whose buffers are smaller than the reply. The node
// must give up at the stream timeout instead of blocking in the write.
func (w *h1World) stalledReader(nd *h1Node) {
	run := w.run
	run.Probe("c13.hostile_inputs")
	run.Fault("hostile_stalled_reader")
	// make sure the reply is larger than the connection's buffers
	for i := 0; i < 40; i++ {
		w.opUpsert(nd, fmt.Sprintf("big%d", i), strings.Repeat("v", 200))
	}
	cfg := w.nw.Config()
	old := cfg.Window
	cfg.Window = 512
	defer func() { cfg.Window = old }()
	conn, err := simnet.Dial("tcp", nd.addr)
	if err != nil {
		run.Fail("C13.no-hang", "stream-listener-dead", "n%d refuses stream connections: %v", nd.idx, err)
		return
	}
	defer conn.Close()
	var jb bytes.Buffer
	jb.WriteByte(byte(messageTypeJoin))
	jb.WriteByte(supportedVersion)
	enc := newEncoder(&jb)
	_ = enc.Encode(&joinHeader{NodeID: "probe", Addr: "10.0.0.99:8003"})
	_ = enc.Encode(delta{})
	_ = enc.Encode(digest{})
	_, _ = conn.Write(jb.Bytes())
	time.Sleep(streamTimeout + 2*time.Second)
	if sc, ok := conn.(*simnet.Conn); ok && !sc.PeerClosed() {
		run.Fail("C13.no-hang", "stalled-stream-not-dropped", "n%d is still holding a stream whose peer stopped reading the join reply %v ago (stream timeout %v)", nd.idx, streamTimeout+2*time.Second, streamTimeout)
	}
	run.Probe("c13.stalled_reader_checked")
}

// hostileStream opens a stream to the node's gossip port and misbehaves; the
// node must drop it no later than the stream timeout, and keep accepting.
func (w *h1World) hostileStream(nd *h1Node, mode int, rng *simkit.Rand) {
	run := w.run
	run.Probe("c13.hostile_inputs")
	run.Fault("hostile_stream")
	conn, err := simnet.Dial("tcp", nd.addr)
	if err != nil {
		run.Fail("C13.no-hang", "stream-listener-dead", "n%d refuses stream connections: %v", nd.idx, err)
		return
	}
	defer conn.Close()
	var buf bytes.Buffer
	switch mode {
	case 0: // silence
	case 1: // type byte only
		buf.WriteByte(byte(messageTypeJoin))
	case 2: // header then stall
		buf.WriteByte(byte(messageTypeJoin))
		buf.WriteByte(supportedVersion)
		_ = newEncoder(&buf).Encode(&joinHeader{NodeID: "evil", Addr: "10.0.0.66:8003"})
	case 3: // garbage
		for k := 0; k < 1+rng.Intn(200); k++ {
			buf.WriteByte(byte(rng.Intn(256)))
		}
	case 4: // join with an absurd array length for the delta
		buf.WriteByte(byte(messageTypeJoin))
		buf.WriteByte(supportedVersion)
		_ = newEncoder(&buf).Encode(&joinHeader{NodeID: "evil", Addr: "10.0.0.66:8003"})
		buf.Write([]byte{0xdd, 0xff, 0xff, 0xff, 0xff})
	case 5: // leave claiming to be the receiver itself, with a left marker about it
		buf.WriteByte(byte(messageTypeLeave))
		buf.WriteByte(supportedVersion)
		enc := newEncoder(&buf)
		_ = enc.Encode(&leaveHeader{NodeID: nd.id, Addr: nd.addr})
		_ = enc.Encode(delta{{ID: nd.id, Addr: nd.addr, Entries: []Entry{{Key: leftKey, Version: nd.ver + 1, Internal: true}}}})
	case 6: // unsupported type / version
		buf.WriteByte(byte(rng.Intn(256)))
		buf.WriteByte(byte(1 + rng.Intn(255)))
	case 7: // valid join whose digest is cut short
		buf.WriteByte(byte(messageTypeJoin))
		buf.WriteByte(supportedVersion)
		enc := newEncoder(&buf)
		_ = enc.Encode(&joinHeader{NodeID: "evil", Addr: "10.0.0.66:8003"})
		_ = enc.Encode(delta{})
		buf.Write([]byte{0x92, 0x84})
	}
	run.Logf("hostile stream mode=%d (%d bytes) -> n%d", mode, buf.Len(), nd.idx)
	if buf.Len() > 0 {
		_, _ = conn.Write(buf.Bytes())
	}
	done := make(chan struct{})
	start := time.Now()
	var closedAfter time.Duration
	go func() {
		defer close(done)
		_, _ = io.Copy(io.Discard, conn)
		closedAfter = time.Since(start)
	}()
	select {
	case <-done:
	case <-time.After(streamTimeout + 2*time.Second):
		run.Fail("C13.no-hang", "stalled-stream-not-dropped", "n%d kept a misbehaving stream (mode %d) open for more than %v", nd.idx, mode, streamTimeout+2*time.Second)
		conn.Close()
		<-done
		return
	}
	if closedAfter >= streamTimeout {
		run.Probe("c13.stream_dropped_at_timeout")
	}
	// a well-formed join is still served
	c2, err := simnet.Dial("tcp", nd.addr)
	if err != nil {
		run.Fail("C13.no-hang", "stream-listener-dead", "n%d refuses stream connections after a hostile stream: %v", nd.idx, err)
		return
	}
	defer c2.Close()
	var jb bytes.Buffer
	jb.WriteByte(byte(messageTypeJoin))
	jb.WriteByte(supportedVersion)
	enc := newEncoder(&jb)
	_ = enc.Encode(&joinHeader{NodeID: "probe", Addr: "10.0.0.99:8003"})
	_ = enc.Encode(delta{})
	_ = enc.Encode(digest{})
	_, _ = c2.Write(jb.Bytes())
	_ = c2.SetReadDeadline(time.Now().Add(streamTimeout))
	var h joinHeader
	if err := newDecoder(c2).Decode(&h); err != nil || h.NodeID != nd.id {
		var ne net.Error
		_ = ne
		run.Fail("C13.no-hang", "valid-join-unanswered", "n%d did not answer a well-formed join after a hostile stream (mode %d): %v", nd.idx, mode, err)
	}
}

func init() {
	drv := h1GenDriven("C13")
	simkit.Register(&simkit.Prop{ID: "C13", Exec: func(run *simkit.Run) {
		if run.Case.Family == "c13.hostile" {
			c13ExecHostile(run)
		} else {
			h1ExecDriven(run)
		}
	}, Gen: func(rng *simkit.Rand, tier string, idx int) *simkit.Case {
		if idx%2 == 1 {
			return c13GenHostile(rng, tier, idx)
		}
		return drv(rng, tier, idx)
	}})
	free := func(p string) { // properties served by driven + free-running families
		d, f := h1GenDriven(p), h1GenFree(p)
		every := map[string]int{"C03": 4, "C11": 2, "C02": 5, "C14": 3}[p]
		simkit.Register(&simkit.Prop{ID: p, Exec: func(run *simkit.Run) {
			if run.Case.Family == "h1.free" {
				h1ExecFree(run)
			} else {
				h1ExecDriven(run)
			}
		}, Gen: func(rng *simkit.Rand, tier string, idx int) *simkit.Case {
			if idx%every == every-1 {
				return f(rng, tier, idx)
			}
			return d(rng, tier, idx)
		}})
	}
	free("C03")
	free("C11")
	free("C02")
	free("C14")
	f12 := h1GenFree("C12")
	simkit.Register(&simkit.Prop{ID: "C12", Exec: func(run *simkit.Run) {
		if run.Case.Family == "h1.free" {
			h1ExecFree(run)
		} else {
			c12Exec(run)
		}
	}, Gen: func(rng *simkit.Rand, tier string, idx int) *simkit.Case {
		if idx%3 == 2 {
			return f12(rng, tier, idx)
		}
		return c12Gen(rng, tier, idx)
	}})
}
