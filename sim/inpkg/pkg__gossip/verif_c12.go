//go:build verif

package gossip

import (
	"fmt"
	"math"
	"sync"
	"testing/synctest"
	"time"

	"github.com/andydunstall/piko/verifsim/simkit"
)

// C12 direct family: the real accrualFailureDetector is fed by peer goroutines
// that sleep on the simulated clock (periodic with jitter, loss bursts,
// stalls) and report concurrently under the seeded scheduler; a reference
// keeps the exact arrival instants.

type c12Ref struct {
	arr       []time.Time // arrival instants since the last Remove
	implicit  *time.Time  // instant of the implicit bootstrap sample taken by a query before any arrival
}

// level returns the reference suspicion level at t, or ok=false when the
// statement does not define it (no sample at all).
func (r *c12Ref) level(t time.Time, window int, bootstrap time.Duration) (float64, float64, bool) {
	var ivs []int64
	var last time.Time
	if r.implicit != nil {
		ivs = append(ivs, bootstrap.Nanoseconds())
		last = *r.implicit
		for _, a := range r.arr {
			ivs = append(ivs, a.Sub(last).Nanoseconds())
			last = a
		}
	} else {
		if len(r.arr) == 0 {
			return 0, 0, false
		}
		ivs = append(ivs, bootstrap.Nanoseconds())
		last = r.arr[0]
		for _, a := range r.arr[1:] {
			ivs = append(ivs, a.Sub(last).Nanoseconds())
			last = a
		}
	}
	if len(ivs) > window {
		ivs = ivs[len(ivs)-window:]
	}
	var sum int64
	for _, v := range ivs {
		sum += v
	}
	mean := float64(sum) / float64(len(ivs))
	if mean <= 0 {
		return 0, 0, false
	}
	return float64(t.Sub(last).Nanoseconds()) / mean, mean, true
}

func c12Gen(rng *simkit.Rand, tier string, idx int) *simkit.Case {
	c := &simkit.Case{Family: "c12.direct", Cfg: map[string]int64{}}
	c.Cfg["window"] = int64([]int{1, 2, 3, 5, 8, 16, 50, 64}[rng.Intn(8)])
	c.Cfg["bootstrap_ms"] = int64(rng.Range(1, 400))
	c.Cfg["peers"] = int64(rng.Range(1, 4))
	c.Cfg["base_ms"] = int64(rng.Range(1, 200))
	c.Cfg["jitter_pm"] = int64([]int{0, 50, 300, 900}[rng.Intn(4)])
	c.Cfg["yield_den"] = []int64{0, 8, 2}[rng.Intn(3)]
	n := rng.Range(5, 60)
	if tier == "thorough" {
		n = rng.Range(5, 200)
	}
	// ops: burst of arrivals (A = peer, B = count), silence (D), query (A = peer), remove (A = peer), twin (A=peer)
	kinds := []string{"arrivals", "silence", "query", "remove", "twin", "complete"}
	w := []int{40, 10, 30, 3, 6, 8}
	for i := 0; i < n; i++ {
		k := kinds[rng.Weighted(w)]
		op := simkit.Op{K: k, A: rng.Intn(1 << 16), B: rng.Range(1, 80), C: rng.Intn(1 << 16)}
		if k == "silence" {
			op.D = int64(time.Duration(rng.Range(1, 5000)) * time.Millisecond)
		}
		c.Script = append(c.Script, op)
	}
	return c
}

func c12Exec(run *simkit.Run) {
	c := run.Case
	window := c.Int("window")
	bootstrap := time.Duration(c.Int("bootstrap_ms")) * time.Millisecond
	fd := newAccrualFailureDetector(bootstrap, window)
	peers := c.Int("peers")
	refs := make([]*c12Ref, peers)
	for i := range refs {
		refs[i] = &c12Ref{}
	}
	var mu sync.Mutex
	base := time.Duration(c.Int("base_ms")) * time.Millisecond
	jit := c.I64("jitter_pm")
	id := func(p int) string { return fmt.Sprintf("p%d", p) }
	thr := float64(suspicionThreshold)

	check := func(p int, t time.Time, what string) (float64, bool) {
		mu.Lock()
		r := refs[p]
		if len(r.arr) == 0 && r.implicit == nil {
			// a query before any arrival takes the implicit bootstrap sample at t
			tt := t
			r.implicit = &tt
		}
		want, mean, ok := r.level(t, window, bootstrap)
		n := len(r.arr)
		mu.Unlock()
		got := fd.SuspicionLevelAt(id(p), t)
		if !ok {
			return got, false
		}
		if d := math.Abs(got - want); d > 1e-9*math.Max(1, math.Abs(want)) {
			sig := "level-mismatch"
			if n > window {
				sig = "level-mismatch-after-window-wrapped"
			}
			run.Fail("C12.exact", sig, "%s of %s after %d arrivals (window %d): level %.9g, reference %.9g (mean %.1fns)", what, id(p), n, window, got, want, mean)
		}
		if n > window {
			run.Probe("c12.fd_window_wrapped")
		}
		return got, true
	}

	for i, op := range c.Script {
		if run.Stop() {
			break
		}
		run.Step = i
		run.Steps++
		p := op.A % peers
		switch op.K {
		case "arrivals":
			// every peer reports concurrently from its own goroutine, paced by the clock
			var wg sync.WaitGroup
			for q := 0; q < peers; q++ {
				if q != p && op.C%3 != 0 {
					continue
				}
				wg.Add(1)
				go func(q int, rng *simkit.Rand) {
					defer wg.Done()
					maxRatio := 0.0
					for k := 0; k < op.B; k++ {
						d := base
						if jit > 0 {
							d += time.Duration(rng.Int63n(int64(base)*jit/1000 + 1))
						}
						if d <= 0 {
							d = time.Microsecond
						}
						time.Sleep(d)
						now := time.Now()
						// accuracy: just before the arrival, the level is interval/mean
						mu.Lock()
						_, mean, ok := refs[q].level(now, window, bootstrap)
						mu.Unlock()
						if ok {
							ratio := float64(d.Nanoseconds()) / mean
							if ratio > maxRatio {
								maxRatio = ratio
							}
							lvl := fd.SuspicionLevelAt(id(q), now)
							if ratio < thr*(1-1e-9) && lvl > thr && k > 0 {
								run.Fail("C12.accuracy", "steady-peer-over-threshold", "%s heard after %v with mean interval %.0fns (ratio %.2f) is at level %.2f > %v", id(q), d, mean, ratio, lvl, thr)
							}
						}
						fd.Report(id(q))
						mu.Lock()
						refs[q].arr = append(refs[q].arr, now)
						mu.Unlock()
						if at0 := fd.SuspicionLevelAt(id(q), now); at0 != 0 {
							run.Fail("C12.exact", "nonzero-at-arrival", "%s level at the instant it is heard from is %.6g", id(q), at0)
						}
					}
				}(q, run.Aux.Fork())
			}
			wg.Wait()
			run.Logf("arrivals peer~%d count=%d", p, op.B)
		case "silence":
			time.Sleep(time.Duration(op.D))
		case "query":
			t := time.Now()
			mu.Lock()
			has := len(refs[p].arr) > 0
			mu.Unlock()
			if has {
				// (a query before any arrival takes the implicit first sample: keep it at "now"
				// so that later arrivals stay strictly increasing, as the property assumes)
				t = t.Add(time.Duration(op.C%1000) * time.Microsecond)
			}
			check(p, t, "query")
		case "complete":
			// a silent peer exceeds the threshold no later than last + threshold*mean
			mu.Lock()
			_, mean, ok := refs[p].level(time.Now(), window, bootstrap)
			var last time.Time
			if n := len(refs[p].arr); n > 0 {
				last = refs[p].arr[n-1]
			} else if refs[p].implicit != nil {
				last = *refs[p].implicit
			}
			mu.Unlock()
			if ok {
				t := last.Add(time.Duration(thr*mean*(1+1e-9)) + 2)
				if lvl, ok := check(p, t, "completeness query"); ok && lvl <= thr {
					run.Fail("C12.completeness", "silent-peer-not-suspected", "%s silent for %v (mean %.0fns) is at level %.4f <= %v", id(p), t.Sub(last), mean, lvl, thr)
				}
				run.Probe("c12.completeness_checked")
			}
		case "remove":
			fd.Remove(id(p))
			mu.Lock()
			refs[p] = &c12Ref{}
			mu.Unlock()
			run.Logf("remove %s", id(p))
		case "twin":
			// two histories that agree on their last `window` intervals give equal levels
			mu.Lock()
			arr := append([]time.Time(nil), refs[p].arr...)
			mu.Unlock()
			if len(arr) >= window+2 {
				twin := newAccrualFailureDetector(bootstrap*3+time.Millisecond, window)
				tail := arr[len(arr)-window-1:]
				pre := tail[0].Add(-time.Duration(1+op.C%977) * time.Millisecond)
				twin.ReportWithTimestamp("t", pre.Add(-time.Duration(1+op.B)*time.Second))
				twin.ReportWithTimestamp("t", pre)
				for _, a := range tail {
					twin.ReportWithTimestamp("t", a)
				}
				q := arr[len(arr)-1].Add(time.Duration(op.C%5000) * time.Millisecond)
				a, b := fd.SuspicionLevelAt(id(p), q), twin.SuspicionLevelAt("t", q)
				if math.Abs(a-b) > 1e-9*math.Max(1, math.Abs(a)) {
					run.Fail("C12.window", "old-arrivals-influence", "%s: level %.9g, a detector that only shares the last %d intervals says %.9g", id(p), a, window, b)
				}
				run.Probe("c12.twin_checked")
			}
		}
		synctest.Wait()
	}
	if run.ProbeCount("c12.fd_window_wrapped") > 0 {
		run.Probe("nontrivial")
	}
	run.Summary = fmt.Sprintf("direct detector window=%d bootstrap=%v peers=%d base=%v jitter=%d‰ ops=%d", window, bootstrap, peers, base, jit, len(c.Script))
}
