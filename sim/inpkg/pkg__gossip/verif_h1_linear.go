//go:build verif

package gossip

import (
	"fmt"
	"strconv"
	"strings"
	"sync"
	"testing/synctest"
	"time"

	"github.com/andydunstall/piko/verifsim/porcupine"
	"github.com/andydunstall/piko/verifsim/simkit"
	"github.com/andydunstall/piko/verifsim/simnet"
)

// h1.linear (C17): several goroutines write and delete the SAME keys of one
// node while others read the node's published state and one compacts. The
// recorded history is checked per key with porcupine against a sequential
// last-write-wins register that also tracks the entry version:
//
//	upsert(v)  key shows v; an effective change takes a fresh, larger version;
//	           writing the value the key already shows changes nothing
//	delete     key is deleted (a marker, or nothing once compacted); deleting a
//	           deleted or unknown key changes nothing
//	read       returns exactly the current value/deletion, and a version that is
//	           larger than that of the state it replaced and never decreases
//	           (compaction may re-version an unchanged key upwards)
func h1GenLinear(rng *simkit.Rand, tier string, idx int) *simkit.Case {
	c := &simkit.Case{Family: "h1.linear", Cfg: map[string]int64{}}
	c.Cfg["writers"] = int64(rng.Range(2, 4))
	c.Cfg["readers"] = int64(rng.Range(1, 2))
	c.Cfg["ops"] = int64(rng.Range(3, 10))
	c.Cfg["keys"] = int64(rng.Range(1, 3))
	c.Cfg["compactions"] = int64(rng.Range(0, 8))
	c.Cfg["yield_den"] = []int64{2, 2, 8, 64}[rng.Intn(4)]
	c.Cfg["max_packet"] = 1400
	c.Cfg["nodes"] = 2
	return c
}

type kvIn struct {
	Kind  string // upsert | delete | read
	Value string
}

type kvOut struct {
	Present bool // the key is listed in the snapshot
	Deleted bool // listed as a deletion marker
	Value   string
	Version uint64
}

// state: "<d|p>|<value>|<version known: 0/1>|<version or lower bound>"
func kvParse(st string) (deleted bool, value string, known bool, ver uint64) {
	f := strings.SplitN(st, "|", 4)
	ver, _ = strconv.ParseUint(f[3], 10, 64)
	return f[0] == "d", f[1], f[2] == "1", ver
}

func kvFormat(deleted bool, value string, known bool, ver uint64) string {
	d, k := "p", "0"
	if deleted {
		d = "d"
	}
	if known {
		k = "1"
	}
	return d + "|" + value + "|" + k + "|" + strconv.FormatUint(ver, 10)
}

var kvModel = porcupine.Model{
	// never written: behaves as deleted, with no version yet
	Init: func() interface{} { return kvFormat(true, "", true, 0) },
	Step: func(state, input, output interface{}) (bool, interface{}) {
		deleted, value, known, ver := kvParse(state.(string))
		in := input.(kvIn)
		switch in.Kind {
		case "upsert":
			if !deleted && value == in.Value {
				return true, state
			}
			// fresh version: strictly above everything this key has shown (lower bound)
			return true, kvFormat(false, in.Value, false, ver)
		case "delete":
			if deleted {
				return true, state
			}
			return true, kvFormat(true, "", false, ver)
		case "read":
			out := output.(kvOut)
			if !out.Present {
				// absent: never written, or deleted and compacted away
				return deleted, state
			}
			if out.Deleted != deleted || (!deleted && out.Value != value) {
				return false, state
			}
			if deleted && known && ver == 0 {
				return false, state // a marker for a key that was never written
			}
			if known {
				// compaction re-versions the entries it keeps: the version of an
				// unchanged key may grow, never shrink
				if out.Version < ver {
					return false, state
				}
				return true, kvFormat(deleted, value, true, out.Version)
			}
			if out.Version <= ver {
				return false, state // not a fresh, larger version
			}
			return true, kvFormat(deleted, value, true, out.Version)
		}
		return false, state
	},
	DescribeOperation: func(input, output interface{}) string {
		in := input.(kvIn)
		if in.Kind != "read" {
			return in.Kind + "(" + in.Value + ")"
		}
		out := output.(kvOut)
		switch {
		case !out.Present:
			return "read -> absent"
		case out.Deleted:
			return fmt.Sprintf("read -> deleted@%d", out.Version)
		}
		return fmt.Sprintf("read -> %s@%d", out.Value, out.Version)
	},
}

func h1ExecLinear(run *simkit.Run) {
	c := run.Case
	w := newH1World(run, 2, 1400, h1DrivenInterval, true, simnet.Config{})
	defer func() {
		w.nw.Intercept = func(string, string, []byte) bool { return true }
		w.emitChecks = false
		w.closeAll()
	}()
	if run.Stop() {
		return
	}
	x := w.nodes[0]
	hist := simkit.NewHistory()
	var wg sync.WaitGroup
	keys := c.Int("keys")
	pause := func(rng *simkit.Rand) {
		if rng.Intn(4) == 0 {
			time.Sleep(time.Microsecond)
		}
	}
	for wi := 0; wi < c.Int("writers"); wi++ {
		wg.Add(1)
		go func(wi int, rng *simkit.Rand) {
			defer wg.Done()
			last := map[string]string{}
			for k := 0; k < c.Int("ops"); k++ {
				key := fmt.Sprintf("k%d", rng.Intn(keys))
				switch r := rng.Intn(10); {
				case r < 3:
					call := hist.Stamp()
					x.g.DeleteLocal(key)
					hist.Done(key, wi, call, kvIn{Kind: "delete"}, kvOut{})
				default:
					v := fmt.Sprintf("v%d-%d", wi, k)
					if r == 9 && last[key] != "" {
						v = last[key] // possibly a no-op write
					}
					if r == 8 {
						v = "" // the empty value is a value
					}
					last[key] = v
					call := hist.Stamp()
					x.g.UpsertLocal(key, v)
					hist.Done(key, wi, call, kvIn{Kind: "upsert", Value: v}, kvOut{})
				}
				pause(rng)
			}
		}(wi, run.Aux.Fork())
	}
	for ri := 0; ri < c.Int("readers"); ri++ {
		wg.Add(1)
		go func(ri int, rng *simkit.Rand) {
			defer wg.Done()
			for k := 0; k < c.Int("ops"); k++ {
				key := fmt.Sprintf("k%d", rng.Intn(keys))
				call := hist.Stamp()
				ns := x.g.LocalNode()
				out := kvOut{}
				for _, e := range ns.Entries {
					if e.Key == key {
						out = kvOut{Present: true, Deleted: e.Deleted, Value: e.Value, Version: e.Version}
					}
					if e.Version > ns.Version {
						run.Fail("C17.version", "entry-above-node-version", "key %q v%d > node version %d in a snapshot taken during concurrent writes", e.Key, e.Version, ns.Version)
					}
				}
				hist.Done(key, 100+ri, call, kvIn{Kind: "read"}, out)
				pause(rng)
			}
		}(ri, run.Aux.Fork())
	}
	wg.Add(1)
	go func(rng *simkit.Rand) {
		defer wg.Done()
		for k := 0; k < c.Int("compactions"); k++ {
			x.g.state.CompactLocal(1)
			pause(rng)
		}
	}(run.Aux.Fork())
	wg.Wait()
	synctest.Wait()
	// the state at rest is one more read per key
	ns := x.g.LocalNode()
	for k := 0; k < keys; k++ {
		key := fmt.Sprintf("k%d", k)
		call := hist.Stamp()
		out := kvOut{}
		for _, e := range ns.Entries {
			if e.Key == key {
				out = kvOut{Present: true, Deleted: e.Deleted, Value: e.Value, Version: e.Version}
			}
		}
		hist.Done(key, 200, call, kvIn{Kind: "read"}, out)
	}
	vs := map[uint64]string{}
	for _, e := range ns.Entries {
		if o, dup := vs[e.Version]; dup {
			run.Fail("C17.version", "duplicate-version", "keys %q and %q share version %d after concurrent writes", o, e.Key, e.Version)
		}
		vs[e.Version] = e.Key
	}
	if res := hist.Check(kvModel, nil, 44); res.BadPart != "" {
		run.LogBad(res)
		run.Fail("C17.linear", "own-state-not-linearizable", "no sequential order of the concurrent writes to key %q explains what was read (%d operations, see log)", res.BadPart, len(res.BadOps))
	} else {
		run.ProbeN("c17.linearizable_keys", res.Checked)
		run.ProbeN("lin.skipped_partitions", res.Skipped)
	}
	// an observer that synchronises afterwards ends up with the same state
	w.absorbLocal(x)
	w.absorbLocal(w.nodes[1])
	w.nodes[1].g.Join([]string{x.addr})
	synctest.Wait()
	if ok, why := w.converged(); !ok {
		run.Fail("C03.converge", "after-concurrent-writes", "%s", why)
	}
	if _, _, yields := simkit.SchedStats(); yields > 0 {
		run.Probe("nontrivial")
	}
	run.Probe("c17.linear_run")
	run.Summary = fmt.Sprintf("linearizable own state: writers=%d readers=%d ops=%d keys=%d compactions=%d yield=1/%d", c.Int("writers"), c.Int("readers"), c.Int("ops"), keys, c.Int("compactions"), c.Int("yield_den"))
}
