//go:build verif

package gossip

import (
	"fmt"
	"runtime"
	"sort"
	"sync"
	"testing/synctest"
	"time"

	"github.com/andydunstall/piko/verifsim/simkit"
	"github.com/andydunstall/piko/verifsim/simnet"
)

// Free-running mode: real intervals, piko's own four tickers, its own random
// peer choice, detector and expiry. The script only injects local writes and
// faults at chosen virtual instants; invariants are sampled at every
// quiescence point and liveness bounds are evaluated after the faults stop.

type h1Pair struct{ o, x string }

type h1Life struct {
	firstLeftSeen time.Time // when this observer first showed the subject as left
	seenLeft      bool
	expiredAt     time.Time // last OnExpired
	expired       bool
	arrivals      []time.Time // delta arrivals from subject at observer since the detector state was last reset
}

type h1Free struct {
	w        *h1World
	interval time.Duration
	life     map[h1Pair]*h1Life
	mu       sync.Mutex
	leftAll  map[string]time.Time // subject -> instant from which every running member has seen it as left
	crashedAt map[string]time.Time
	faultFree bool // no loss, no partition, no crash in this case
	expiryProbe bool
}

func (f *h1Free) lifeOf(o, x string) *h1Life {
	k := h1Pair{o, x}
	l := f.life[k]
	if l == nil {
		l = &h1Life{}
		f.life[k] = l
	}
	return l
}

func h1GenFree(prop string) func(rng *simkit.Rand, tier string, idx int) *simkit.Case {
	return func(rng *simkit.Rand, tier string, idx int) *simkit.Case {
		c := &simkit.Case{Family: "h1.free", Cfg: map[string]int64{}}
		c.Cfg["nodes"] = int64(rng.Range(3, 4))
		if tier == "thorough" {
			c.Cfg["nodes"] = int64(rng.Range(3, 5))
		}
		c.Cfg["keys"] = int64(rng.Range(1, 6))
		c.Cfg["interval_ms"] = int64([]int{50, 100, 200}[rng.Intn(3)])
		if tier == "thorough" {
			c.Cfg["interval_ms"] = int64([]int{20, 50, 100, 200}[rng.Intn(4)])
		}
		c.Cfg["max_packet"] = int64([]int{400, 700, 1400}[rng.Intn(3)])
		c.Cfg["valmax"] = int64(rng.Range(0, 40))
		c.Cfg["pkt_drop"] = int64([]int{0, 20, 100, 250}[rng.Intn(4)])
		c.Cfg["pkt_dup"] = int64([]int{0, 30, 100}[rng.Intn(3)])
		c.Cfg["pkt_reorder"] = int64([]int{0, 50, 200}[rng.Intn(3)])
		c.Cfg["pkt_delay_us"] = int64([]int{100, 1000, 5000}[rng.Intn(3)])
		c.Cfg["yield_den"] = []int64{0, 64, 8, 2}[rng.Intn(4)]
		c.Cfg["net_quantum_us"] = []int64{0, 1000, 1000, 10000}[rng.Intn(4)]
		if prop == "C14" {
			c.Cfg["expiry_probe"] = int64(rng.Intn(4) / 1 % 2) | 1
		}
		steps := rng.Range(6, 24)
		if tier == "thorough" {
			steps = rng.Range(6, 40)
		}
		// weights: upsert delete leave crash partition heal addnode wait longwait
		w := []int{24, 10, 4, 4, 6, 6, 2, 30, 6}
		if prop == "C11" || prop == "C14" {
			w = []int{10, 4, 8, 10, 10, 8, 3, 24, 14}
		}
		if prop == "C12" {
			w = []int{8, 2, 1, 4, 8, 8, 1, 40, 10}
		}
		kinds := []string{"upsert", "delete", "leave", "crash", "partition", "heal", "addnode", "wait", "longwait"}
		longs := 0
		for i := 0; i < steps; i++ {
			k := kinds[rng.Weighted(w)]
			if k == "longwait" {
				// bound the simulated time of a run (events cost wall time)
				if longs++; longs > 2+map[string]int{"thorough": 2}[tier] {
					k = "wait"
				}
			}
			op := simkit.Op{K: k, A: rng.Intn(1 << 16), B: rng.Intn(1 << 16), C: rng.Intn(1 << 16)}
			switch k {
			case "wait":
				op.D = int64(time.Duration(rng.Range(1, 400)) * time.Millisecond * time.Duration(c.Cfg["interval_ms"]) / 20)
			case "longwait":
				op.D = int64(time.Duration(rng.Range(5, 80)) * time.Second)
			default:
				op.D = int64(time.Duration(rng.Range(0, 200)) * time.Millisecond)
			}
			c.Script = append(c.Script, op)
		}
		// Bound the cost of a run: wall time grows with node-rounds (simulated time
		// x nodes / interval, about a millisecond each), and the thorough tier's
		// extra long waits with 20 ms tickers and six nodes ran into the wall
		// watchdog. The long waits share what the budget leaves; one of them keeps
		// the 70 s an expiry needs whenever that fits.
		if tier == "thorough" {
			nodes, short, long, nlong := c.Cfg["nodes"], int64(0), int64(0), 0
			for _, op := range c.Script {
				switch op.K {
				case "longwait":
					long += op.D
					nlong++
				case "addnode":
					nodes++
					short += op.D
				default:
					short += op.D
				}
			}
			budget := 30000 * c.Cfg["interval_ms"] * int64(time.Millisecond) / nodes
			if rest := budget - short; nlong > 0 && long > rest {
				if rest < int64(5*time.Second) {
					rest = int64(5 * time.Second)
				}
				keep := int64(0)
				if rest >= int64(75*time.Second) {
					keep = int64(70 * time.Second)
				}
				first := true
				for i := range c.Script {
					if op := &c.Script[i]; op.K == "longwait" {
						if first && keep > 0 {
							op.D, first = keep, false
							continue
						}
						op.D = op.D * (rest - keep) / long
					}
				}
			}
		}
		return c
	}
}

func h1ExecFree(run *simkit.Run) {
	c := run.Case
	interval := time.Duration(c.Int("interval_ms")) * time.Millisecond
	ncfg := simnet.Config{
		PktDrop: c.I64("pkt_drop"), PktDup: c.I64("pkt_dup"), PktReorder: c.I64("pkt_reorder"),
		PktDelay: time.Duration(c.Int("pkt_delay_us")) * time.Microsecond, PktJitter: time.Duration(c.Int("pkt_delay_us")) * time.Microsecond,
		Quantum: time.Duration(c.Int("net_quantum_us")) * time.Microsecond,
	}
	w := newH1World(run, c.Int("nodes"), c.Int("max_packet"), interval, false, ncfg)
	f := &h1Free{w: w, interval: interval, life: map[h1Pair]*h1Life{}, leftAll: map[string]time.Time{}, crashedAt: map[string]time.Time{}}
	w.free = f
	f.expiryProbe = c.On("expiry_probe")
	f.faultFree = c.I64("pkt_drop") == 0 && c.I64("pkt_reorder") == 0
	for _, op := range c.Script {
		if op.K == "crash" || op.K == "partition" {
			f.faultFree = false
		}
	}
	if f.faultFree {
		run.Probe("c12.fault_free_run")
	}
	w.nw.OnDeliver = f.onDeliver
	defer func() {
		w.emitChecks = false
		w.closeAll()
	}()
	if run.Stop() {
		return
	}
	for _, nd := range w.nodes {
		w.absorbLocal(nd)
	}
	for i := 1; i < len(w.nodes); i++ {
		w.nodes[i].g.Join([]string{w.nodes[0].addr})
	}
	keys := c.Int("keys")
	salt := 0
	pick := func(a int, ok func(*h1Node) bool) *h1Node {
		var cand []*h1Node
		for _, n := range w.nodes {
			if ok(n) {
				cand = append(cand, n)
			}
		}
		if len(cand) == 0 {
			return nil
		}
		return cand[a%len(cand)]
	}
	member := func(n *h1Node) bool { return n.alive && !n.left && !n.crashed }
	host := func(n *h1Node) string { return fmt.Sprintf("10.0.0.%d", n.idx+1) }
	sample := func() {
		synctest.Wait()
		w.checkAll(nil)
		f.checkLifecycle(false)
	}
	sample()
	for i, op := range c.Script {
		if run.Stop() {
			break
		}
		run.Step = i
		run.Steps++
		// sleep in slices so that invariants are sampled while gossip runs
		for d := time.Duration(op.D); d > 0 && !run.Stop(); {
			s := d
			if s > 10*interval && op.K != "longwait" {
				s = 10 * interval
			} else if s > 5*time.Second {
				s = 5 * time.Second
			}
			time.Sleep(s)
			d -= s
			sample()
		}
		switch op.K {
		case "upsert":
			if x := pick(op.A, member); x != nil {
				salt++
				val := h1Value(op.C, c.Int("valmax"), salt)
				run.Logf("n%d upsert %s=%q", x.idx, h1Key(op.B%keys), trunc(val))
				w.opUpsert(x, h1Key(op.B%keys), val)
			}
		case "delete":
			if x := pick(op.A, member); x != nil {
				run.Logf("n%d delete %s", x.idx, h1Key(op.B%keys))
				w.opDelete(x, h1Key(op.B%keys))
			}
		case "leave":
			if x := pick(op.A, member); x != nil && len(w.members()) > 2 {
				run.Logf("n%d leave", x.idx)
				x.left = true
				_ = x.g.Leave()
				w.absorbLocal(x)
				x.g.Close()
				x.alive = false
				run.Probe("c11.leave")
			}
		case "crash":
			if x := pick(op.A, member); x != nil && len(w.members()) > 2 {
				run.Logf("n%d crash (reset=%v)", x.idx, op.B%2 == 0)
				w.nw.Crash(host(x), op.B%2 == 0)
				x.alive, x.crashed = false, true
				f.crashedAt[x.id] = time.Now()
				run.Probe("c11.crash")
			}
		case "partition":
			a, b := pick(op.A, member), pick(op.B, member)
			if a != nil && b != nil && a != b {
				run.Logf("partition n%d | n%d", a.idx, b.idx)
				w.nw.Partition(host(a), host(b), simnet.ClassAll)
			}
		case "heal":
			run.Logf("heal all")
			w.nw.HealAll()
		case "addnode":
			if len(w.nodes) < 6 {
				nd := w.addNode()
				w.absorbLocal(nd)
				run.Logf("added n%d", nd.idx)
				if t := pick(op.A, func(n *h1Node) bool { return member(n) && n != nd }); t != nil {
					nd.g.Join([]string{t.addr})
				}
				run.Probe("late_joiner")
			}
		}
		sample()
	}
	if !run.Stop() {
		f.settleFree()
	}
	if run.ProbeCount("c02.partial_view") > 0 || run.ProbeCount("c11.crash") > 0 || run.ProbeCount("c11.leave") > 0 || run.ProbeCount("c12.fd_window_wrapped") > 0 {
		run.Probe("nontrivial")
	}
	run.Summary = fmt.Sprintf("free-running nodes=%d interval=%v drop=%d‰ dup=%d‰ reorder=%d‰ steps=%d first=%v", len(w.nodes), interval,
		c.Int("pkt_drop"), c.Int("pkt_dup"), c.Int("pkt_reorder"), len(c.Script), firstOps(c.Script, 5))
}

// onDeliver records the arrival instants of delta packets (what the failure
// detector is fed with), independently of piko.
func (f *h1Free) onDeliver(src, dst string, b []byte) {
	if len(b) < 2 || messageType(b[0]) != messageTypeDelta {
		return
	}
	h, _, err := decodeDelta(b)
	if err != nil {
		return
	}
	o := f.w.byAddr[dst]
	if o == nil || !o.alive {
		return
	}
	f.mu.Lock()
	l := f.lifeOf(o.id, h.NodeID)
	l.arrivals = append(l.arrivals, time.Now())
	f.mu.Unlock()
}

// noteExpired / noteJoin are called from the watcher (under piko's state mutex).
func (f *h1Free) noteExpired(o int, id string) {
	f.mu.Lock()
	l := f.lifeOf(fmt.Sprintf("n%d", o), id)
	l.expired, l.expiredAt = true, time.Now()
	l.arrivals = nil
	f.mu.Unlock()
	if f.expiryProbe {
		// Never from this goroutine: the callback may run under o's state lock
		// and the probe reads a peer's state; two nodes expiring each other
		// at once would deadlock on a lock cycle of the harness's own making.
		go f.digestDuringExpiry(o, id)
		runtime.Gosched()
	}
}

// digestDuringExpiry places a fault inside the operation: at the very instant
// observer o announces the expiry of id, a round-opening digest from a real
// peer that still lists id (exactly what that peer would send now) reaches o,
// and the scheduler is given the chance to run o's packet listener first.
func (f *h1Free) digestDuringExpiry(o int, id string) {
	w := f.w
	dst := w.nodes[o]
	for _, p := range w.nodes {
		if p.idx == o || !p.alive || p.g == nil {
			continue
		}
		m, ok := findMeta(p.g.state.Nodes(), id)
		if !ok || m.Left {
			continue
		}
		meta := p.g.state.LocalNodeMetadata()
		b, err := encodeDigest(digestHeader{NodeID: meta.ID, Addr: meta.Addr, Request: true}, p.g.state.Digest(), w.maxPacket)
		if err != nil {
			return
		}
		w.run.Fault("digest_during_expiry")
		w.nw.Inject(p.addr, dst.addr, b)
		runtime.Gosched()
		return
	}
}

func (f *h1Free) noteJoin(o int, id string) {
	f.mu.Lock()
	l := f.lifeOf(fmt.Sprintf("n%d", o), id)
	wasExpired := l.expired
	f.mu.Unlock()
	if !wasExpired {
		return
	}
	x := f.w.byID[id]
	if x == nil {
		return
	}
	if x.crashed {
		f.w.run.Fail("C11.expire-stays", "relearned-crashed-node-after-expiry",
			"n%d expired crashed node %s and learnt it again %v later although it never returned", o, id, time.Since(l.expiredAt))
	} else if x.left {
		f.w.run.Probe("c11.left_node_relearnt_after_expiry")
	} else {
		f.w.run.Probe("c11.live_node_relearnt_after_expiry")
	}
}

const h1Slack = 2 * time.Second

// checkLifecycle: C11 (and C12 wiring) rules evaluated on a quiescent system.
func (f *h1Free) checkLifecycle(final bool) {
	w, run := f.w, f.w.run
	now := time.Now()
	sweep := 11*f.interval + h1Slack
	tick := f.interval + f.interval/10 + 50*time.Millisecond
	for _, o := range w.nodes {
		if !o.alive || o.left {
			continue
		}
		metas := metaMap(o.g.state.Nodes())
		fd := o.g.state.failureDetector.(*accrualFailureDetector)
		for _, x := range w.nodes {
			if x == o {
				continue
			}
			m, known := metas[x.id]
			f.mu.Lock()
			l := f.lifeOf(o.id, x.id)
			f.mu.Unlock()
			if known && m.Left {
				if !l.seenLeft {
					l.seenLeft, l.firstLeftSeen = true, now
				}
				if now.Sub(l.firstLeftSeen) > nodeExpiry+sweep {
					run.Fail("C11.left-expire", "left-node-not-forgotten", "n%d still knows left node %s %v after learning of its departure", o.idx, x.id, now.Sub(l.firstLeftSeen))
				}
			}
			if known && !m.Left && x.left {
				if t, ok := f.leftAll[x.id]; ok && now.After(t) {
					run.Fail("C11.left-no-relearn", "left-node-live-after-all-knew", "n%d shows left node %s as live although every running node had already learnt of its departure", o.idx, x.id)
				}
			}
			if !known || m.Left {
				continue
			}
			// detector wiring: read the detector's own window
			fd.mu.Lock()
			win := fd.windows[x.id]
			var last time.Time
			var mean float64
			if win != nil {
				last, mean = win.lastTimestamp, win.intervals.Mean()
			}
			fd.mu.Unlock()
			if win == nil || mean <= 0 {
				continue
			}
			phi := float64(now.Sub(last).Nanoseconds()) / mean
			if m.Unreachable && f.faultFree && x.alive && !x.left && !x.crashed {
				run.Fail("C12.accuracy", "steady-peer-suspected", "fault-free run: n%d marks steadily gossiping %s unreachable (level %.1f, mean interval %v)", o.idx, x.id, phi, time.Duration(mean))
			}
			if m.Unreachable {
				if phi <= float64(suspicionThreshold) && now.Sub(last) > tick+h1Slack/4 {
					run.Fail("C11.recover", "heard-again-still-unreachable", "n%d keeps %s unreachable although it was heard from %v ago (level %.2f)", o.idx, x.id, now.Sub(last), phi)
				}
				if m.Expiry.IsZero() {
					run.Fail("C11.unreachable", "unreachable-without-expiry", "n%d marks %s unreachable without a removal deadline", o.idx, x.id)
				} else if now.Sub(m.Expiry) > sweep {
					run.Fail("C11.unreachable", "unreachable-not-forgotten", "n%d still knows unreachable %s %v after its removal deadline", o.idx, x.id, now.Sub(m.Expiry))
				}
				run.Probe("c11.unreachable_seen")
			} else {
				over := time.Duration(float64(suspicionThreshold)*mean) + tick + h1Slack/4
				if now.Sub(last) > over {
					run.Fail("C11.unreachable", "silent-node-not-marked", "n%d has not heard from %s for %v (mean interval %v, level %.1f) and still treats it as reachable", o.idx, x.id, now.Sub(last), time.Duration(mean), phi)
				}
				if !m.Expiry.IsZero() {
					run.Fail("C11.recover", "reachable-with-expiry", "n%d treats %s as reachable but still holds a removal deadline for it", o.idx, x.id)
				}
			}
			// C12 wiring: once the window has wrapped, the mean is exactly the
			// mean of the last 50 recorded inter-arrival times
			f.mu.Lock()
			arr := append([]time.Time(nil), l.arrivals...)
			f.mu.Unlock()
			if n := len(arr); n >= 52 && !arr[n-1].Equal(last) {
				run.Fail("C12.exact", "report-missing", "n%d's detector last heard from %s at %v, the last delta from it was delivered at %v", o.idx, x.id, last.Sub(run.T0), arr[n-1].Sub(run.T0))
			} else if n >= 52 {
				var sum int64
				for i := n - 50; i < n; i++ {
					sum += arr[i].Sub(arr[i-1]).Nanoseconds()
				}
				ref := float64(sum) / 50
				if d := (mean - ref) / ref; d > 1e-9 || d < -1e-9 {
					run.Fail("C12.window", "wiring-mean-mismatch", "n%d's detector mean for %s is %.1fns, the last 50 recorded inter-arrival times average %.1fns", o.idx, x.id, mean, ref)
				}
				run.Probe("c12.fd_window_wrapped")
			}
		}
	}
	// the instant from which every running member has seen the departure
	for _, x := range w.nodes {
		if !x.left {
			continue
		}
		if _, ok := f.leftAll[x.id]; ok {
			continue
		}
		all := true
		for _, o := range w.nodes {
			if o == x || !o.alive || o.left {
				continue
			}
			f.mu.Lock()
			seen := f.lifeOf(o.id, x.id).seenLeft
			f.mu.Unlock()
			if !seen {
				all = false
			}
		}
		if all {
			f.leftAll[x.id] = now
		}
	}
}

// settleFree: faults stop; views must converge and membership must settle
// within bounds stated in gossip intervals (C03 free-running, C11 liveness).
func (f *h1Free) settleFree() {
	w, run := f.w, f.w.run
	w.nw.HealAll()
	cfg := w.nw.Config()
	cfg.PktDrop, cfg.PktDup, cfg.PktReorder = 0, 0, 0
	run.Logf("settle: faults stopped")
	members := w.members()
	if len(members) < 2 {
		return
	}
	entries, unknown := w.outstanding()
	per := w.maxPacket / 120
	if per < 1 {
		per = 1
	}
	// a node that was declared unreachable everywhere may need to be rediscovered
	// after expiry: allow the expiry period once.
	bound := time.Duration(50+20*(entries/per+unknown+1)) * f.interval
	deadline := time.Now().Add(bound)
	ok := false
	why := ""
	for time.Now().Before(deadline) {
		time.Sleep(5 * f.interval)
		synctest.Wait()
		w.checkAll(nil)
		f.checkLifecycle(false)
		if run.Stop() {
			return
		}
		if ok, why = w.converged(); ok {
			break
		}
	}
	if !ok {
		// members that no member knows any more (mutual expiry) cannot be found
		// by gossip: that is outside C03's premise ("live nodes keep exchanging")
		if f.isolated() {
			run.Probe("c03.free_isolated_member")
			return
		}
		run.Fail("C03.converge", "free-not-converged", "%v after faults stopped (%d entries, %d unknown pairs were outstanding): %s", bound, entries, unknown, why)
		return
	}
	run.Probe("c03.converged")
	if entries+unknown > 0 {
		run.Probe("c03.converged_from_divergent_state")
	}
	// every member sees every member reachable again
	time.Sleep(45 * f.interval)
	synctest.Wait()
	w.checkAll(nil)
	f.checkLifecycle(true)
	for _, o := range w.members() {
		ms := metaMap(o.g.state.Nodes())
		for _, x := range w.members() {
			if o != x && ms[x.id].Unreachable {
				run.Fail("C11.recover", "member-unreachable-after-settle", "n%d still marks running member %s unreachable %v after faults stopped", o.idx, x.id, bound+45*f.interval)
			}
		}
	}
}

// isolated reports whether some member is unknown to every other member and
// knows none of them (only a new join can reconnect it).
func (f *h1Free) isolated() bool {
	ms := f.w.members()
	for _, a := range ms {
		linked := false
		for _, b := range ms {
			if a == b {
				continue
			}
			if _, ok := a.g.state.Node(b.id); ok {
				linked = true
			}
			if _, ok := b.g.state.Node(a.id); ok {
				linked = true
			}
		}
		if !linked {
			return true
		}
	}
	return false
}

func sortedTimes(ts []time.Time) []time.Time {
	sort.Slice(ts, func(i, j int) bool { return ts[i].Before(ts[j]) })
	return ts
}
