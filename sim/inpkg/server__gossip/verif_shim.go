//go:build verif

package gossip

import "github.com/andydunstall/piko/pkg/gossip"

// VerifGossiper exposes the underlying gossip instance to the /verif harness.
func (g *Gossip) VerifGossiper() *gossip.Gossip { return g.gossiper }
