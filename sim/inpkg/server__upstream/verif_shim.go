//go:build verif

package upstream

// VerifOpenSessions exposes the number of open upstream sessions to the /verif harness.
func (s *Server) VerifOpenSessions() int { return s.openSessions() }
