// Package sim is the single worker binary of the /verif machinery. One process
// executes a batch of runs of one property; every run is one synctest bubble
// under the seeded scheduler. See /verif/DESIGN.md section 2.5.
package sim

import (
	"bufio"
	"encoding/json"
	"fmt"
	"os"
	"runtime"
	"runtime/debug"
	"strconv"
	"strings"
	"testing"
	"testing/synctest"
	"time"

	"github.com/andydunstall/piko/verifsim/simkit"

	_ "github.com/andydunstall/piko/pkg/gossip"
	_ "github.com/andydunstall/piko/verifsim/h2"
	_ "github.com/andydunstall/piko/verifsim/h3"
)

type line struct {
	Start  *int           `json:"start,omitempty"`
	Result *simkit.Result `json:"result,omitempty"`
	Case   *simkit.Case   `json:"case,omitempty"`
}

func envInt(k string, def int64) int64 {
	v := os.Getenv(k)
	if v == "" {
		return def
	}
	n, err := strconv.ParseInt(v, 10, 64)
	if err != nil {
		fmt.Fprintf(os.Stderr, "verif: bad %s=%q\n", k, v)
		os.Exit(2)
	}
	return n
}

func TestSim(t *testing.T) {
	propID := os.Getenv("VERIF_PROP")
	if propID == "" {
		t.Skip("VERIF_PROP not set")
	}
	p := simkit.Lookup(propID)
	if p == nil {
		fmt.Fprintf(os.Stderr, "verif: unknown property %q (have %v)\n", propID, simkit.IDs())
		os.Exit(2)
	}
	if runtime.GOMAXPROCS(0) != 1 {
		fmt.Fprintln(os.Stderr, "verif: workers must be started with GOMAXPROCS=1 in the environment")
		os.Exit(2)
	}
	outPath := os.Getenv("VERIF_OUT")
	var out *bufio.Writer
	if outPath == "" {
		out = bufio.NewWriter(os.Stdout)
	} else {
		f, err := os.OpenFile(outPath, os.O_CREATE|os.O_WRONLY|os.O_APPEND, 0o644)
		if err != nil {
			fmt.Fprintln(os.Stderr, err)
			os.Exit(2)
		}
		defer f.Close()
		out = bufio.NewWriter(f)
	}
	emit := func(l line) {
		b, _ := json.Marshal(l)
		out.Write(b)
		out.WriteByte('\n')
		out.Flush()
	}
	keep := os.Getenv("VERIF_KEEP_EVENTS") != ""

	debug.SetGCPercent(-1)
	debug.SetMemoryLimit(1 << 62)
	runtime.GC()

	if rp := os.Getenv("VERIF_REPLAY"); rp != "" {
		b, err := os.ReadFile(rp)
		if err != nil {
			fmt.Fprintln(os.Stderr, err)
			os.Exit(2)
		}
		var wrapper struct {
			Case *simkit.Case `json:"case"`
		}
		if err := json.Unmarshal(b, &wrapper); err != nil || wrapper.Case == nil {
			fmt.Fprintf(os.Stderr, "verif: bad replay file %s: %v\n", rp, err)
			os.Exit(2)
		}
		idx := -1
		emit(line{Start: &idx})
		res := runOne(t, p, wrapper.Case, idx, true)
		emit(line{Result: res})
		return
	}

	seed := uint64(envInt("VERIF_SEED", 1))
	start := int(envInt("VERIF_START", 0))
	count := int(envInt("VERIF_COUNT", 1))
	tier := os.Getenv("VERIF_TIER")
	if tier == "" {
		tier = "quick"
	}
	for i := start; i < start+count; i++ {
		rng := simkit.NewRand(simkit.Mix(seed, uint64(i), simkit.HashString(propID)))
		c := p.Gen(rng, tier, i)
		c.Prop = propID
		if c.SchedSeed == 0 {
			c.SchedSeed = rng.U64() | 1
		}
		if c.NetSeed == 0 {
			c.NetSeed = rng.U64() | 1
		}
		ii := i
		if os.Getenv("VERIF_DUMP_CASE") != "" {
			emit(line{Case: c})
			continue
		}
		emit(line{Start: &ii})
		res := runOne(t, p, c, i, keep)
		l := line{Result: res}
		if res.Status != "ok" {
			l.Case = c
		}
		emit(l)
		runtime.GC()
		runtime.GC()
	}
}

func runOne(t *testing.T, p *simkit.Prop, c *simkit.Case, idx int, keep bool) *simkit.Result {
	run := simkit.NewRun(c, keep)
	maxWall := p.MaxWall
	if maxWall == 0 {
		maxWall = 90 * time.Second
	}
	wd := time.AfterFunc(maxWall, func() {
		// Outside the bubble: real time. A run that does not finish is either a
		// deadlock on a lock (classified by the orchestrator from the stacks) or
		// a harness problem; never silently ignored.
		buf := make([]byte, 8<<20)
		n := runtime.Stack(buf, true)
		fmt.Fprintf(os.Stderr, "VERIF-WATCHDOG idx=%d wall>%v\n%s\n", idx, maxWall, buf[:n])
		os.Exit(3)
	})
	t0 := time.Now()
	status, errText := "ok", ""
	func() {
		defer func() {
			if r := recover(); r != nil {
				simkit.SchedSeed(0)
				errText = fmt.Sprint(r)
				if strings.Contains(errText, "all goroutines in bubble are blocked") {
					// nothing can run and no timer is pending: a deadlock of the system
					// under test; the stacks decide (orchestrator) whether it is a lock cycle
					buf := make([]byte, 8<<20)
					n := runtime.Stack(buf, true)
					fmt.Fprintf(os.Stderr, "VERIF-WATCHDOG idx=%d synctest: %s\n%s\n", idx, errText, buf[:n])
					os.Exit(3)
				}
				if strings.Contains(errText, "deadlock") {
					// the run finished but goroutines of the bubble are still blocked
					status = "leak"
					buf := make([]byte, 4<<20)
					n := runtime.Stack(buf, true)
					errText += "\n" + leakSummary(string(buf[:n]))
				} else {
					status = "error"
				}
			}
		}()
		synctest.Test(t, func(t *testing.T) {
			if den := c.Cfg["yield_den"]; den > 0 {
				simkit.SetYield(1, uint64(den))
			} else {
				simkit.SetYield(0, 1)
			}
			if fs := os.Getenv("VERIF_FORCE_STALL"); fs != "" && c.Cfg["stall_den"] == 0 {
				// developer aid: force the execution-time fault on for every run
				var den, us int64
				fmt.Sscanf(fs, "%d,%d", &den, &us)
				c.Cfg["stall_den"], c.Cfg["stall_max_us"] = den, us
			}
			simkit.SetStall(uint64(c.Cfg["stall_den"]), uint64(c.Cfg["stall_max_us"])*1000)
			simkit.SchedSeed(c.SchedSeed)
			simkit.SetWallLimit(int64(maxWall))
			run.T0 = time.Now()
			p.Exec(run)
			run.EndNs = int64(time.Since(run.T0))
			if n := simkit.StallCount(); n > 0 {
				run.FaultN("exec_stall", int(n))
			}
			// Time stops when the bubble's root function returns: let every timeout of
			// the torn-down system (stream deadlines, dial timeouts, back-offs, grace
			// periods) expire first, so that only real leaks remain blocked.
			time.Sleep(3 * time.Minute)
			h, picks, yields := simkit.SchedStats()
			run.SchedHash, run.Picks, run.Yields = h, picks, yields
			// the scheduler stays seeded until every goroutine of the bubble has
			// exited (teardown is part of the deterministic execution)
		})
		simkit.SchedSeed(0)
		// the execution-time fault stays on during the drain: a goroutine asleep in
		// a stall may be what a spinning one (yamux Stream.Read) is waiting for
		simkit.SetStall(0, 0)
	}()
	wd.Stop()
	simkit.SetWallLimit(0)
	res := run.Finish(idx, time.Since(t0), status, errText)
	if res.Status != "ok" || keep {
		res.Events = run.OrderedEvents()
	}
	return res
}

// leakSummary keeps the first frames of the bubble goroutines that are still
// blocked after the run ended.
func leakSummary(stacks string) string {
	var out []string
	for _, g := range strings.Split(stacks, "\n\n") {
		if !strings.Contains(g, "synctest bubble") || strings.Contains(g, "testing.tRunner") {
			continue
		}
		lines := strings.Split(g, "\n")
		var fr []string
		for _, l := range lines[1:] {
			if !strings.HasPrefix(l, "\t") && len(fr) < 4 {
				fr = append(fr, strings.Split(l, "(")[0])
			}
		}
		out = append(out, lines[0]+" "+strings.Join(fr, " < "))
		if len(out) >= 12 {
			break
		}
	}
	return strings.Join(out, "\n")
}
