// Package simnet is the in-memory network every simulated piko node, client and
// upstream application talks over. It implements net.Listener, net.Conn and
// net.PacketConn; every delivery decision (delay, drop, duplicate, reorder,
// segmentation, reset, black-hole, partition) is drawn from the run's PRNG at
// the moment of the write and delivered by a timer of the synctest bubble, so a
// run is a pure function of its case.
//
// piko reaches it through the mechanical source rewrite done by
// /verif/tools/rewrite (net.Dial -> simnet.Dial, ...); see DESIGN.md section 2.3.
package simnet

import (
	"context"
	"errors"
	"fmt"
	"io"
	"net"
	"os"
	"sort"
	"strconv"
	"sync"
	"syscall"
	"time"

	"github.com/andydunstall/piko/verifsim/simkit"
)

// Config holds the fault rates (per mille) and delays of a run.
type Config struct {
	PktDrop    int64
	PktDup     int64
	PktReorder int64
	PktDelay   time.Duration // minimum one-way delay of a datagram
	PktJitter  time.Duration

	StreamDelay  time.Duration
	StreamJitter time.Duration
	Segment      int64 // chance a stream write is cut into several deliveries
	ShortRead    int64 // chance a read returns fewer bytes than available
	Window       int   // per-direction buffer; writers block beyond it

	ConnectTimeout time.Duration // used when the dialer has none

	// Quantum, when non-zero, rounds every delivery instant up to a multiple of
	// it, so that deliveries coincide with timer-driven work (tickers, sweeps)
	// at the same virtual instant and the scheduler decides their order.
	Quantum time.Duration
}

func (c *Config) quantize(at time.Time) time.Time {
	if c.Quantum <= 0 {
		return at
	}
	q := int64(c.Quantum)
	ns := at.UnixNano()
	if r := ns % q; r != 0 {
		at = at.Add(time.Duration(q - r))
	}
	return at
}

// Link classes for partitions.
const (
	ClassGossip = 1 // anything to/from a gossip port (datagram and stream)
	ClassOther  = 2
	ClassAll    = 3
)

// Net is one simulated network.
type Net struct {
	mu  sync.Mutex
	run *simkit.Run
	rng *simkit.Rand
	cfg Config

	listeners map[string]*Listener
	pconns    map[string]*PacketConn
	pairs     map[int]*pair
	down      map[string]int // host -> 0 up, 1 down (refuse/reset), 2 down (black-hole)
	blocked   map[[2]string]int
	lastDeliv map[string]time.Time
	names     map[string][]string
	tags      []string // tag id -> host
	tagOf     map[string]uint64
	gossipPorts map[int]bool
	refuse      map[int]bool // ports on which new connections are refused (circuit breaker of the harness)

	nextConn int
	nextPort int
	topo     chan struct{} // closed and replaced on every topology change

	// Intercept, when set, sees every datagram that survives the partition
	// check before any random fault is applied; returning true consumes it
	// (driven harnesses deliver by hand through Inject).
	Intercept func(src, dst string, b []byte) bool
	// OnPacket observes every datagram handed to the network by real code.
	OnPacket func(src, dst string, b []byte)
	// OnDeliver observes every datagram at the instant it is handed to the
	// destination socket.
	OnDeliver func(src, dst string, b []byte)
	// OnFirstWrite observes a stream connection when its dialling side writes
	// for the first time (Head then holds the beginning of the request).
	OnFirstWrite func(c *ConnInfo)

	Conns []*ConnInfo
}

// ConnInfo is what the passive sniffer keeps about one stream connection.
type ConnInfo struct {
	ID      int
	SrcHost string
	Src     string
	Dst     string
	At      time.Duration
	Head    []byte // first bytes sent by the dialling side
}

const headMax = 4096

var Default *Net

// Reset installs a fresh network for a run.
func Reset(run *simkit.Run, cfg Config) *Net {
	if cfg.Window <= 0 {
		cfg.Window = 256 << 10
	}
	if cfg.ConnectTimeout <= 0 {
		cfg.ConnectTimeout = 30 * time.Second
	}
	n := &Net{
		run: run, rng: run.Net, cfg: cfg,
		listeners: map[string]*Listener{}, pconns: map[string]*PacketConn{},
		pairs: map[int]*pair{}, down: map[string]int{}, blocked: map[[2]string]int{},
		lastDeliv: map[string]time.Time{}, names: map[string][]string{},
		tags: []string{""}, tagOf: map[string]uint64{}, gossipPorts: map[int]bool{}, refuse: map[int]bool{},
		nextPort: 20000, topo: make(chan struct{}),
	}
	Default = n
	return n
}

func (n *Net) Config() *Config { return &n.cfg }

// SetHost tags the calling goroutine (and every goroutine it starts from now
// on) as running on the given simulated host.
func SetHost(host string) {
	n := Default
	n.mu.Lock()
	t, ok := n.tagOf[host]
	if !ok {
		n.tags = append(n.tags, host)
		t = uint64(len(n.tags) - 1)
		n.tagOf[host] = t
	}
	n.mu.Unlock()
	simkit.SetTag(t)
}

// CurrentHost returns the host of the calling goroutine ("" if untagged).
func CurrentHost() string {
	t := simkit.GetTag()
	n := Default
	n.mu.Lock()
	defer n.mu.Unlock()
	if int(t) < len(n.tags) {
		return n.tags[t]
	}
	return ""
}

// RefusePort makes every new connection to the port fail (used by harness
// oracles to stop a runaway, e.g. a forwarding loop, once it has been judged).
func (n *Net) RefusePort(p int) { n.mu.Lock(); n.refuse[p] = true; n.mu.Unlock() }

// MarkGossipPort declares a port number as carrying gossip (for ClassGossip).
func (n *Net) MarkGossipPort(p int) { n.mu.Lock(); n.gossipPorts[p] = true; n.mu.Unlock() }

// SetName makes a DNS-like name resolve to the given hosts.
func (n *Net) SetName(name string, hosts []string) {
	n.mu.Lock()
	n.names[name] = append([]string(nil), hosts...)
	n.mu.Unlock()
}

func (n *Net) topoChanged() {
	close(n.topo)
	n.topo = make(chan struct{})
}

func pairKey(a, b string) [2]string {
	if a > b {
		a, b = b, a
	}
	return [2]string{a, b}
}

// Partition blocks the given classes of traffic between two hosts.
func (n *Net) Partition(a, b string, classes int) {
	n.mu.Lock()
	n.blocked[pairKey(a, b)] |= classes
	n.topoChanged()
	n.mu.Unlock()
	n.run.Fault("partition")
}

// Heal removes the block between two hosts and flushes held stream data.
func (n *Net) Heal(a, b string) {
	n.mu.Lock()
	delete(n.blocked, pairKey(a, b))
	n.topoChanged()
	ps := n.pairList()
	n.mu.Unlock()
	for _, p := range ps {
		p.ab.pump()
		p.ba.pump()
	}
	n.run.Fault("heal")
}

// HealAll removes every partition.
func (n *Net) HealAll() {
	n.mu.Lock()
	n.blocked = map[[2]string]int{}
	n.topoChanged()
	ps := n.pairList()
	n.mu.Unlock()
	for _, p := range ps {
		p.ab.pump()
		p.ba.pump()
	}
}

func (n *Net) pairList() []*pair {
	ids := make([]int, 0, len(n.pairs))
	for id := range n.pairs {
		ids = append(ids, id)
	}
	sort.Ints(ids)
	out := make([]*pair, 0, len(ids))
	for _, id := range ids {
		out = append(out, n.pairs[id])
	}
	return out
}

func (n *Net) isBlockedLocked(a, b string, port int) bool {
	if n.down[a] == 2 || n.down[b] == 2 {
		return true
	}
	m := n.blocked[pairKey(a, b)]
	if m == 0 {
		return false
	}
	if n.gossipPorts[port] {
		return m&ClassGossip != 0
	}
	return m&ClassOther != 0
}

// Crash severs a host from the network. With reset=true its listeners refuse
// and its connections are reset (process killed, kernel alive); otherwise it
// becomes a black hole (machine gone). The goroutines of the node keep running
// in isolation; there is no durable state in piko for a restart to recover.
func (n *Net) Crash(host string, reset bool) {
	n.mu.Lock()
	if reset {
		n.down[host] = 1
	} else {
		n.down[host] = 2
	}
	var ps []*pair
	for _, p := range n.pairList() {
		if p.srcHost == host || p.dstHost == host {
			ps = append(ps, p)
		}
	}
	var lns []*Listener
	for _, k := range sortedKeys(n.listeners) {
		if n.listeners[k].a.IP.String() == host {
			lns = append(lns, n.listeners[k])
		}
	}
	n.topoChanged()
	n.mu.Unlock()
	if reset {
		for _, p := range ps {
			p.reset()
		}
	}
	_ = lns
	n.run.Fault("crash")
}

// Down reports whether a host has been crashed.
func (n *Net) Down(host string) bool { n.mu.Lock(); defer n.mu.Unlock(); return n.down[host] != 0 }

func sortedKeys[V any](m map[string]V) []string {
	ks := make([]string, 0, len(m))
	for k := range m {
		ks = append(ks, k)
	}
	sort.Strings(ks)
	return ks
}

func tcpAddr(s string) *net.TCPAddr {
	h, p, err := net.SplitHostPort(s)
	if err != nil {
		return &net.TCPAddr{}
	}
	port, _ := strconv.Atoi(p)
	return &net.TCPAddr{IP: net.ParseIP(h), Port: port}
}

// ---------------------------------------------------------------- datagrams

type packet struct {
	b    []byte
	from net.Addr
}

type PacketConn struct {
	n      *Net
	a      *net.UDPAddr
	mu     sync.Mutex
	cond   *sync.Cond
	q      []packet
	closed bool
}

// ListenUDP mirrors net.ListenUDP.
func ListenUDP(network string, a *net.UDPAddr) (net.PacketConn, error) {
	n := Default
	p := &PacketConn{n: n, a: a}
	p.cond = sync.NewCond(&p.mu)
	n.mu.Lock()
	defer n.mu.Unlock()
	if _, ok := n.pconns[a.String()]; ok {
		return nil, &net.OpError{Op: "listen", Net: network, Err: syscall.EADDRINUSE}
	}
	n.pconns[a.String()] = p
	return p, nil
}

// ListenPacket mirrors net.ListenPacket.
func ListenPacket(network, addr string) (net.PacketConn, error) {
	t := tcpAddr(addr)
	return ListenUDP(network, &net.UDPAddr{IP: t.IP, Port: t.Port})
}

func (p *PacketConn) ReadFrom(b []byte) (int, net.Addr, error) {
	p.mu.Lock()
	defer p.mu.Unlock()
	for {
		if p.closed {
			return 0, nil, &net.OpError{Op: "read", Net: "udp", Err: net.ErrClosed}
		}
		if len(p.q) > 0 {
			pk := p.q[0]
			p.q = p.q[1:]
			return copy(b, pk.b), pk.from, nil
		}
		p.cond.Wait()
	}
}

func (p *PacketConn) WriteTo(b []byte, addr net.Addr) (int, error) {
	n := p.n
	src := p.a.IP.String()
	ua, _ := addr.(*net.UDPAddr)
	if ua == nil {
		ua = &net.UDPAddr{IP: tcpAddr(addr.String()).IP, Port: tcpAddr(addr.String()).Port}
	}
	dst := ua.IP.String()
	dstKey := ua.String()
	cp := append([]byte(nil), b...)
	if n.OnPacket != nil {
		n.OnPacket(p.a.String(), dstKey, cp)
	}
	n.mu.Lock()
	if n.down[src] != 0 {
		n.mu.Unlock()
		n.run.Fault("pkt_from_dead")
		return len(b), nil
	}
	if n.down[dst] != 0 || n.isBlockedLocked(src, dst, ua.Port) {
		n.mu.Unlock()
		n.run.Fault("pkt_partition_drop")
		return len(b), nil
	}
	n.mu.Unlock()
	if n.Intercept != nil && n.Intercept(p.a.String(), dstKey, cp) {
		return len(b), nil
	}
	n.mu.Lock()
	defer n.mu.Unlock()
	if n.rng.Permille(n.cfg.PktDrop) {
		n.run.Fault("pkt_drop")
		return len(b), nil
	}
	copies := 1
	if n.rng.Permille(n.cfg.PktDup) {
		n.run.Fault("pkt_dup")
		copies = 2
	}
	for i := 0; i < copies; i++ {
		d := n.cfg.PktDelay
		if n.cfg.PktJitter > 0 {
			d += time.Duration(n.rng.Int63n(int64(n.cfg.PktJitter) + 1))
		}
		if n.rng.Permille(n.cfg.PktReorder) {
			n.run.Fault("pkt_reorder")
			d += n.cfg.PktDelay*3 + n.cfg.PktJitter*3 + time.Millisecond
		}
		n.scheduleDatagramLocked(dstKey, packet{cp, p.a}, d)
	}
	return len(b), nil
}

// scheduleDatagramLocked delivers after d, keeping >= 1us between deliveries
// to one destination (strictly increasing arrival instants, as C12 assumes).
func (n *Net) scheduleDatagramLocked(dstKey string, pk packet, d time.Duration) {
	at := n.cfg.quantize(time.Now().Add(d))
	if last, ok := n.lastDeliv[dstKey]; ok && !at.After(last) {
		at = last.Add(time.Microsecond)
	}
	if d > n.cfg.PktDelay+n.cfg.PktJitter {
		// a deliberately late (reordered) packet must not push later ones back
	} else {
		n.lastDeliv[dstKey] = at
	}
	time.AfterFunc(time.Until(at), func() { n.deliverDatagram(dstKey, pk) })
}

func (n *Net) deliverDatagram(dstKey string, pk packet) {
	n.mu.Lock()
	dst := n.pconns[dstKey]
	n.mu.Unlock()
	if dst == nil {
		n.run.Fault("pkt_no_listener")
		return
	}
	dst.mu.Lock()
	closed := dst.closed
	if !closed {
		dst.q = append(dst.q, pk)
		dst.cond.Broadcast()
	}
	dst.mu.Unlock()
	if !closed && n.OnDeliver != nil {
		n.OnDeliver(pk.from.String(), dstKey, pk.b)
	}
}

// Inject delivers a datagram to dst right now as if sent by src (driven
// harnesses and hostile-input generators).
func (n *Net) Inject(src, dst string, b []byte) {
	s := tcpAddr(src)
	n.deliverDatagram(dst, packet{append([]byte(nil), b...), &net.UDPAddr{IP: s.IP, Port: s.Port}})
}

func (p *PacketConn) Close() error {
	p.mu.Lock()
	p.closed = true
	p.cond.Broadcast()
	p.mu.Unlock()
	p.n.mu.Lock()
	if p.n.pconns[p.a.String()] == p {
		delete(p.n.pconns, p.a.String())
	}
	p.n.mu.Unlock()
	return nil
}
func (p *PacketConn) LocalAddr() net.Addr                { return p.a }
func (p *PacketConn) SetDeadline(t time.Time) error      { return nil }
func (p *PacketConn) SetReadDeadline(t time.Time) error  { return nil }
func (p *PacketConn) SetWriteDeadline(t time.Time) error { return nil }

// ---------------------------------------------------------------- streams

type chunk struct {
	b   []byte
	at  time.Time
	fin bool
}

// pipe is one direction of a stream connection.
type pipe struct {
	pr   *pair
	mu   sync.Mutex
	cond *sync.Cond

	q        []chunk // in flight, FIFO
	inflight int
	buf      []byte // delivered, readable
	lastAt   time.Time

	wclosed bool // writer closed its end (FIN queued)
	eof     bool // FIN delivered
	rclosed bool // reader closed its end
	rst     bool

	rdl, wdl     time.Time
	rtimer, wtimer *time.Timer

	srcHost, dstHost string
	port             int
}

type pair struct {
	id               int
	n                *Net
	ab, ba           *pipe // ab: dialer -> listener
	srcHost, dstHost string
	info             *ConnInfo
}

func (pr *pair) reset() {
	for _, p := range []*pipe{pr.ab, pr.ba} {
		p.mu.Lock()
		p.rst = true
		p.q = nil
		p.inflight = 0
		p.cond.Broadcast()
		p.mu.Unlock()
	}
	pr.n.run.Fault("conn_reset")
}

func (pr *pair) maybeForget() {
	a, b := pr.ab, pr.ba
	a.mu.Lock()
	ad := (a.wclosed || a.rst) && (a.rclosed || a.rst)
	a.mu.Unlock()
	b.mu.Lock()
	bd := (b.wclosed || b.rst) && (b.rclosed || b.rst)
	b.mu.Unlock()
	if ad && bd {
		pr.n.mu.Lock()
		delete(pr.n.pairs, pr.id)
		pr.n.mu.Unlock()
	}
}

// pump moves every due, unblocked chunk into the readable buffer.
func (p *pipe) pump() {
	n := p.pr.n
	n.mu.Lock()
	blocked := n.isBlockedLocked(p.srcHost, p.dstHost, p.port)
	n.mu.Unlock()
	if blocked {
		n.run.Fault("stream_stalled")
		return
	}
	now := time.Now()
	p.mu.Lock()
	moved := false
	for len(p.q) > 0 && !p.q[0].at.After(now) {
		c := p.q[0]
		p.q = p.q[1:]
		if c.fin {
			p.eof = true
		} else {
			p.inflight -= len(c.b)
			if !p.rclosed {
				p.buf = append(p.buf, c.b...)
			}
		}
		moved = true
	}
	if moved {
		p.cond.Broadcast()
	}
	p.mu.Unlock()
}

func (p *pipe) enqueueLocked(b []byte, fin bool) {
	n := p.pr.n
	d := n.cfg.StreamDelay
	n.mu.Lock()
	if n.cfg.StreamJitter > 0 {
		d += time.Duration(n.rng.Int63n(int64(n.cfg.StreamJitter) + 1))
	}
	n.mu.Unlock()
	at := n.cfg.quantize(time.Now().Add(d))
	if at.Before(p.lastAt) {
		at = p.lastAt
	}
	p.lastAt = at
	p.q = append(p.q, chunk{b: b, at: at, fin: fin})
	if !fin {
		p.inflight += len(b)
	}
	time.AfterFunc(time.Until(at), p.pump)
}

// Conn is one end of a simulated stream connection.
type Conn struct {
	r, w   *pipe
	la, ra net.Addr
	pr     *pair
	dialer bool

	mu     sync.Mutex
	closed bool
}

func opErr(op string, c *Conn, err error) error {
	return &net.OpError{Op: op, Net: "tcp", Source: c.la, Addr: c.ra, Err: err}
}

func (c *Conn) isClosed() bool { c.mu.Lock(); defer c.mu.Unlock(); return c.closed }

func (c *Conn) Read(b []byte) (int, error) {
	p := c.r
	p.mu.Lock()
	defer p.mu.Unlock()
	for {
		if c.isClosed() {
			return 0, opErr("read", c, net.ErrClosed)
		}
		if len(b) == 0 {
			return 0, nil
		}
		if len(p.buf) > 0 {
			k := len(p.buf)
			if k > len(b) {
				k = len(b)
			}
			n := p.pr.n
			if k > 1 && n.cfg.ShortRead > 0 {
				n.mu.Lock()
				if n.rng.Permille(n.cfg.ShortRead) {
					k = 1 + n.rng.Intn(k-1)
					n.run.Fault("short_read")
				}
				n.mu.Unlock()
			}
			copy(b, p.buf[:k])
			p.buf = p.buf[k:]
			if len(p.buf) == 0 {
				p.buf = nil
			}
			p.cond.Broadcast() // window space for the writer
			return k, nil
		}
		if p.rst {
			return 0, opErr("read", c, syscall.ECONNRESET)
		}
		if p.eof {
			return 0, io.EOF
		}
		if !p.rdl.IsZero() && !time.Now().Before(p.rdl) {
			return 0, opErr("read", c, os.ErrDeadlineExceeded)
		}
		p.cond.Wait()
	}
}

func (c *Conn) Write(b []byte) (int, error) {
	p := c.w
	n := p.pr.n
	total := 0
	p.mu.Lock()
	defer p.mu.Unlock()
	for {
		if c.isClosed() || p.wclosed {
			return total, opErr("write", c, net.ErrClosed)
		}
		if p.rst {
			return total, opErr("write", c, syscall.ECONNRESET)
		}
		if p.rclosed {
			return total, opErr("write", c, syscall.EPIPE)
		}
		if !p.wdl.IsZero() && !time.Now().Before(p.wdl) {
			return total, opErr("write", c, os.ErrDeadlineExceeded)
		}
		if len(b) == 0 {
			return total, nil
		}
		space := n.cfg.Window - p.inflight - len(p.buf)
		if space <= 0 {
			n.run.Probe("net.window_full")
			p.cond.Wait()
			continue
		}
		k := len(b)
		if k > space {
			k = space
		}
		data := append([]byte(nil), b[:k]...)
		if c.dialer && c.pr.info != nil && len(c.pr.info.Head) < headMax {
			room := headMax - len(c.pr.info.Head)
			if room > len(data) {
				room = len(data)
			}
			first := len(c.pr.info.Head) == 0
			c.pr.info.Head = append(c.pr.info.Head, data[:room]...)
			if first && n.OnFirstWrite != nil {
				n.OnFirstWrite(c.pr.info)
			}
		}
		// segmentation: cut the accepted bytes into several deliveries
		for len(data) > 0 {
			seg := len(data)
			if seg > 1 && n.cfg.Segment > 0 {
				n.mu.Lock()
				if n.rng.Permille(n.cfg.Segment) {
					seg = 1 + n.rng.Intn(seg-1)
					n.run.Fault("segment")
				}
				n.mu.Unlock()
			}
			p.enqueueLocked(data[:seg], false)
			data = data[seg:]
		}
		total += k
		b = b[k:]
		if len(b) == 0 {
			return total, nil
		}
	}
}

func (c *Conn) Close() error {
	c.mu.Lock()
	if c.closed {
		c.mu.Unlock()
		return nil
	}
	c.closed = true
	c.mu.Unlock()
	// our write direction: FIN after data in flight
	w := c.w
	w.mu.Lock()
	if !w.wclosed && !w.rst {
		w.wclosed = true
		w.enqueueLocked(nil, true)
	}
	w.cond.Broadcast()
	w.mu.Unlock()
	// our read direction: discard, peer's writes now fail
	r := c.r
	r.mu.Lock()
	r.rclosed = true
	r.buf = nil
	r.cond.Broadcast()
	r.mu.Unlock()
	c.pr.maybeForget()
	return nil
}

// CloseWrite half-closes the connection (FIN) like *net.TCPConn.
func (c *Conn) CloseWrite() error {
	w := c.w
	w.mu.Lock()
	if !w.wclosed && !w.rst {
		w.wclosed = true
		w.enqueueLocked(nil, true)
	}
	w.cond.Broadcast()
	w.mu.Unlock()
	return nil
}

func (c *Conn) LocalAddr() net.Addr  { return c.la }
func (c *Conn) RemoteAddr() net.Addr { return c.ra }

func (c *Conn) SetDeadline(t time.Time) error {
	_ = c.SetReadDeadline(t)
	return c.SetWriteDeadline(t)
}

func setDL(p *pipe, dl *time.Time, tm **time.Timer, t time.Time) {
	p.mu.Lock()
	*dl = t
	if *tm != nil {
		(*tm).Stop()
		*tm = nil
	}
	if !t.IsZero() {
		if d := time.Until(t); d > 0 {
			*tm = time.AfterFunc(d, func() {
				p.mu.Lock()
				p.cond.Broadcast()
				p.mu.Unlock()
			})
		}
	}
	p.cond.Broadcast()
	p.mu.Unlock()
}

func (c *Conn) SetReadDeadline(t time.Time) error {
	if c.isClosed() {
		return opErr("set", c, net.ErrClosed)
	}
	setDL(c.r, &c.r.rdl, &c.r.rtimer, t)
	return nil
}

func (c *Conn) SetWriteDeadline(t time.Time) error {
	if c.isClosed() {
		return opErr("set", c, net.ErrClosed)
	}
	setDL(c.w, &c.w.wdl, &c.w.wtimer, t)
	return nil
}

// PeerClosed reports whether the other end has closed the connection (observed
// without reading).
func (c *Conn) PeerClosed() bool {
	c.r.mu.Lock()
	defer c.r.mu.Unlock()
	return c.r.wclosed || c.r.rst
}

// Reset aborts the connection (RST) from outside (fault injection).
func (c *Conn) Reset() { c.pr.reset() }

// ---------------------------------------------------------------- listener

type Listener struct {
	n      *Net
	a      *net.TCPAddr
	mu     sync.Mutex
	cond   *sync.Cond
	q      []*Conn
	closed bool
}

// Listen mirrors net.Listen for tcp.
func Listen(network, addr string) (net.Listener, error) {
	n := Default
	a := tcpAddr(addr)
	if a.IP == nil {
		if h := CurrentHost(); h != "" {
			a.IP = net.ParseIP(h)
		} else {
			a.IP = net.ParseIP("10.9.0.1")
		}
	}
	n.mu.Lock()
	defer n.mu.Unlock()
	if a.Port == 0 {
		n.nextPort++
		a.Port = n.nextPort
	}
	if _, ok := n.listeners[a.String()]; ok {
		return nil, &net.OpError{Op: "listen", Net: network, Addr: a, Err: syscall.EADDRINUSE}
	}
	l := &Listener{n: n, a: a}
	l.cond = sync.NewCond(&l.mu)
	n.listeners[a.String()] = l
	return l, nil
}

func (l *Listener) Accept() (net.Conn, error) {
	l.mu.Lock()
	defer l.mu.Unlock()
	for {
		if l.closed {
			return nil, &net.OpError{Op: "accept", Net: "tcp", Addr: l.a, Err: net.ErrClosed}
		}
		if len(l.q) > 0 {
			c := l.q[0]
			l.q = l.q[1:]
			return c, nil
		}
		l.cond.Wait()
	}
}

func (l *Listener) Close() error {
	l.mu.Lock()
	if l.closed {
		l.mu.Unlock()
		return nil
	}
	l.closed = true
	q := l.q
	l.q = nil
	l.cond.Broadcast()
	l.mu.Unlock()
	l.n.mu.Lock()
	if l.n.listeners[l.a.String()] == l {
		delete(l.n.listeners, l.a.String())
	}
	l.n.mu.Unlock()
	for _, c := range q {
		c.pr.reset()
	}
	return nil
}

func (l *Listener) Addr() net.Addr { return l.a }

// ---------------------------------------------------------------- dialling

// Dialer mirrors the fields of net.Dialer that piko sets.
type Dialer struct {
	Timeout   time.Duration
	KeepAlive time.Duration
}

func (d *Dialer) Dial(network, addr string) (net.Conn, error) {
	return d.DialContext(context.Background(), network, addr)
}

func (d *Dialer) DialContext(ctx context.Context, network, addr string) (net.Conn, error) {
	if d != nil && d.Timeout > 0 {
		var cancel func()
		ctx, cancel = context.WithTimeout(ctx, d.Timeout)
		defer cancel()
	}
	return DialContext(ctx, network, addr)
}

func Dial(network, addr string) (net.Conn, error) {
	return DialContext(context.Background(), network, addr)
}

func DialTimeout(network, addr string, timeout time.Duration) (net.Conn, error) {
	ctx, cancel := context.WithTimeout(context.Background(), timeout)
	defer cancel()
	return DialContext(ctx, network, addr)
}

// TLSDial stands in for tls.Dial: TLS is outside the simulation.
func TLSDial(network, addr string, _ any) (net.Conn, error) {
	return nil, errors.New("simnet: tls not simulated")
}

// LookupIP mirrors net.LookupIP over the registered names.
func LookupIP(host string) ([]net.IP, error) {
	n := Default
	n.mu.Lock()
	defer n.mu.Unlock()
	hs, ok := n.names[host]
	if !ok {
		return nil, &net.DNSError{Err: "no such host", Name: host, IsNotFound: true}
	}
	var ips []net.IP
	for _, h := range hs {
		ips = append(ips, net.ParseIP(h))
	}
	return ips, nil
}

// ResolveUDPAddr mirrors net.ResolveUDPAddr without ever touching the real
// resolver: IP literals and names registered with SetName only.
func ResolveUDPAddr(network, addr string) (*net.UDPAddr, error) {
	host, port, err := net.SplitHostPort(addr)
	if err != nil {
		return nil, &net.AddrError{Err: err.Error(), Addr: addr}
	}
	p, err := strconv.Atoi(port)
	if err != nil || p < 0 || p > 65535 {
		return nil, &net.AddrError{Err: "invalid port", Addr: addr}
	}
	if host == "" {
		return &net.UDPAddr{Port: p}, nil
	}
	if ip := net.ParseIP(host); ip != nil {
		return &net.UDPAddr{IP: ip, Port: p}, nil
	}
	ips, err := LookupIP(host)
	if err != nil || len(ips) == 0 {
		return nil, &net.DNSError{Err: "no such host", Name: host, IsNotFound: true}
	}
	return &net.UDPAddr{IP: ips[0], Port: p}, nil
}

func ResolveTCPAddr(network, addr string) (*net.TCPAddr, error) {
	u, err := ResolveUDPAddr(network, addr)
	if err != nil {
		return nil, err
	}
	return &net.TCPAddr{IP: u.IP, Port: u.Port}, nil
}

func DialContext(ctx context.Context, network, addr string) (net.Conn, error) {
	n := Default
	src := CurrentHost()
	if src == "" {
		src = "10.9.0.1"
	}
	host, port, err := net.SplitHostPort(addr)
	if err != nil {
		return nil, &net.OpError{Op: "dial", Net: network, Err: err}
	}
	portN, _ := strconv.Atoi(port)
	n.mu.Lock()
	if net.ParseIP(host) == nil {
		// a name: behaves like a health-checked load balancer / DNS round robin
		var live []string
		for _, h := range n.names[host] {
			if n.down[h] == 0 {
				live = append(live, h)
			}
		}
		if len(live) == 0 {
			n.mu.Unlock()
			return nil, &net.OpError{Op: "dial", Net: network, Err: &net.DNSError{Err: "no such host", Name: host, IsNotFound: true}}
		}
		host = live[n.rng.Intn(len(live))]
	}
	dstKey := net.JoinHostPort(host, port)
	n.mu.Unlock()

	deadline := time.NewTimer(n.cfg.ConnectTimeout)
	defer deadline.Stop()
	for {
		n.mu.Lock()
		if n.down[src] != 0 {
			// a dead node cannot reach anybody
			n.mu.Unlock()
			n.run.Fault("dial_from_dead")
			return nil, &net.OpError{Op: "dial", Net: network, Err: syscall.ENETUNREACH}
		}
		blocked := n.isBlockedLocked(src, host, portN)
		topo := n.topo
		n.mu.Unlock()
		if !blocked {
			break
		}
		n.run.Fault("dial_blocked")
		select {
		case <-ctx.Done():
			return nil, &net.OpError{Op: "dial", Net: network, Err: ctxErr(ctx)}
		case <-deadline.C:
			return nil, &net.OpError{Op: "dial", Net: network, Err: os.ErrDeadlineExceeded}
		case <-topo:
		}
	}
	if d := n.cfg.StreamDelay; d > 0 {
		select {
		case <-ctx.Done():
			return nil, &net.OpError{Op: "dial", Net: network, Err: ctxErr(ctx)}
		case <-time.After(2 * d):
		}
	}
	if err := ctx.Err(); err != nil {
		return nil, &net.OpError{Op: "dial", Net: network, Err: ctxErr(ctx)}
	}
	n.mu.Lock()
	l := n.listeners[dstKey]
	if l == nil || n.down[host] == 1 || n.refuse[portN] {
		n.mu.Unlock()
		n.run.Fault("dial_refused")
		return nil, &net.OpError{Op: "dial", Net: network, Addr: tcpAddr(dstKey), Err: syscall.ECONNREFUSED}
	}
	n.nextConn++
	id := n.nextConn
	n.nextPort++
	la := &net.TCPAddr{IP: net.ParseIP(src), Port: n.nextPort}
	ra := tcpAddr(dstKey)
	pr := &pair{id: id, n: n, srcHost: src, dstHost: host}
	mk := func(s, d string) *pipe {
		p := &pipe{pr: pr, srcHost: s, dstHost: d, port: portN}
		p.cond = sync.NewCond(&p.mu)
		return p
	}
	pr.ab, pr.ba = mk(src, host), mk(host, src)
	pr.info = &ConnInfo{ID: id, SrcHost: src, Src: la.String(), Dst: dstKey, At: n.run.Now()}
	n.Conns = append(n.Conns, pr.info)
	n.pairs[id] = pr
	c1 := &Conn{r: pr.ba, w: pr.ab, la: la, ra: ra, pr: pr, dialer: true}
	c2 := &Conn{r: pr.ab, w: pr.ba, la: ra, ra: la, pr: pr}
	n.mu.Unlock()
	l.mu.Lock()
	if l.closed {
		l.mu.Unlock()
		return nil, &net.OpError{Op: "dial", Net: network, Addr: ra, Err: syscall.ECONNREFUSED}
	}
	l.q = append(l.q, c2)
	l.cond.Broadcast()
	l.mu.Unlock()
	return c1, nil
}

func ctxErr(ctx context.Context) error {
	if errors.Is(ctx.Err(), context.DeadlineExceeded) {
		return os.ErrDeadlineExceeded
	}
	return ctx.Err()
}

// PairConns returns the live connections whose either end is on host (for
// targeted fault injection). Sorted by id.
func (n *Net) PairsOf(host string) []*pair {
	n.mu.Lock()
	defer n.mu.Unlock()
	var out []*pair
	for _, p := range n.pairList() {
		if p.srcHost == host || p.dstHost == host {
			out = append(out, p)
		}
	}
	return out
}

// ResetConnsBetween resets every live connection from src host to dst addr
// prefix (used to model a dropped connection).
func (n *Net) ResetConns(match func(src, dst string) bool) int {
	n.mu.Lock()
	var ps []*pair
	for _, p := range n.pairList() {
		if match(p.srcHost, p.info.Dst) {
			ps = append(ps, p)
		}
	}
	n.mu.Unlock()
	for _, p := range ps {
		p.reset()
	}
	return len(ps)
}

// CountConnsTo counts open connections from src whose destination host is up.
func (n *Net) CountConnsFromToUp(src string) int {
	n.mu.Lock()
	defer n.mu.Unlock()
	c := 0
	for _, p := range n.pairList() {
		if p.srcHost == src && n.down[p.dstHost] == 0 {
			c++
		}
	}
	return c
}

// LiveConns returns the number of tracked connections (leak oracle).
func (n *Net) LiveConns() int { n.mu.Lock(); defer n.mu.Unlock(); return len(n.pairs) }

func (n *Net) String() string {
	n.mu.Lock()
	defer n.mu.Unlock()
	return fmt.Sprintf("simnet{listeners=%d pconns=%d conns=%d}", len(n.listeners), len(n.pconns), len(n.pairs))
}
