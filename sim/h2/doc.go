// Package h2 holds the routing-level harnesses (real gossip + syncer + cluster
// state + upstream manager per node; DESIGN.md section 3, H2/H2b).
package h2
