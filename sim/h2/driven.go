package h2

import (
	"fmt"
	"sync"
	"testing/synctest"
	"time"

	"github.com/andydunstall/piko/server/cluster"
	"github.com/andydunstall/piko/verifsim/simkit"
	"github.com/andydunstall/piko/verifsim/simnet"
)

const drivenInterval = 1000 * time.Hour

var ops = []string{"add", "remove", "dupremove", "select", "round", "deliver", "drop", "dup", "flush", "compact", "advance", "liveness", "expire", "leave", "crash", "addnode", "join"}

var profiles = map[string][]int{
	//      add rem dup sel rnd dlv drp dup fls cmp adv liv exp lve crs add join
	"C04": {14, 10, 2, 2, 20, 26, 6, 3, 3, 6, 3, 3, 3, 1, 1, 1, 1},
	"C05": {26, 18, 12, 6, 8, 10, 2, 1, 2, 3, 0, 0, 0, 1, 0, 0, 0},
	"C15": {22, 16, 6, 40, 4, 6, 0, 0, 2, 0, 0, 0, 0, 0, 0, 0, 0},
	"C20": {14, 10, 4, 10, 16, 20, 4, 2, 3, 4, 2, 2, 2, 1, 1, 1, 1},
}

func genDriven(prop string) func(rng *simkit.Rand, tier string, idx int) *simkit.Case {
	return func(rng *simkit.Rand, tier string, idx int) *simkit.Case {
		c := &simkit.Case{Family: "h2.driven", Cfg: map[string]int64{}}
		c.Cfg["nodes"] = int64(rng.Range(1, 4))
		if prop == "C04" {
			c.Cfg["nodes"] = int64(rng.Range(2, 5))
		}
		c.Cfg["endpoints"] = int64(rng.Range(1, len(endpointNames)))
		c.Cfg["max_packet"] = int64([]int{220, 300, 500, 1400}[rng.Intn(4)])
		c.Cfg["prejoin"] = int64(rng.Intn(3))
		steps := rng.Range(15, 140)
		if tier == "thorough" {
			steps = rng.Range(15, 400)
		}
		w := append([]int(nil), profiles[prop]...)
		for i := range w {
			if i > 0 && rng.Intn(7) == 0 {
				w[i] = 0
			}
		}
		for i := 0; i < steps; i++ {
			op := simkit.Op{K: ops[rng.Weighted(w)], A: rng.Intn(1 << 16), B: rng.Intn(1 << 16), C: rng.Intn(1 << 16)}
			switch op.K {
			case "advance":
				op.D = int64(time.Duration(rng.Range(1, 90)) * time.Second)
			case "compact":
				op.C = 1 + rng.Intn(3)
			}
			c.Script = append(c.Script, op)
		}
		if prop == "C04" || rng.Intn(4) == 0 {
			a, b := rng.Intn(1<<16), rng.Intn(1<<16)
			sec := func(lo, hi int) int64 { return int64(time.Duration(rng.Range(lo, hi)) * time.Second) }
			motifs := [][]simkit.Op{
				// endpoint withdrawn while the observer misses updates, deletion compacted away before it is seen
				{{K: "add", A: a, B: b}, {K: "round", A: a + 1, B: a}, {K: "flush"}, {K: "remove", A: a, B: 0}, {K: "compact", A: a, C: 1}, {K: "add", A: a, B: b + 1}, {K: "round", A: a + 1, B: a}, {K: "flush"}},
				// node first seen while pending, declared unreachable before its addresses arrive
				{{K: "addnode", A: a}, {K: "add", A: 1 << 15, B: b}, {K: "advance", D: sec(5, 9)}, {K: "liveness", A: a}, {K: "round", A: a, B: b}, {K: "flush"}},
				// suspected, departed, heard again
				{{K: "round", A: a, B: b}, {K: "flush"}, {K: "advance", D: sec(5, 9)}, {K: "liveness", A: a}, {K: "round", A: a, B: b}, {K: "deliver", A: 0}, {K: "leave", A: b, B: 1}, {K: "flush"}, {K: "liveness", A: a}},
				// expired then re-learnt
				{{K: "crash", A: b}, {K: "advance", D: sec(5, 9)}, {K: "liveness", A: a}, {K: "advance", D: sec(61, 80)}, {K: "expire", A: a}, {K: "round", A: a, B: b}, {K: "flush"}},
			}
			m := motifs[rng.Intn(len(motifs))]
			at := rng.Intn(len(c.Script) + 1)
			c.Script = append(c.Script[:at:at], append(m, c.Script[at:]...)...)
		}
		return c
	}
}

func execDriven(run *simkit.Run) {
	c := run.Case
	w := newWorld(run, c.Int("nodes"), c.Int("max_packet"), drivenInterval, true, simnet.Config{})
	defer func() {
		w.nw.Intercept = func(string, string, []byte) bool { return true }
		w.closeAll()
	}()
	if run.Stop() {
		return
	}
	switch c.Int("prejoin") {
	case 1:
		for i := 1; i < len(w.nodes); i++ {
			w.nodes[i].sg.JoinOnBoot([]string{w.nodes[i-1].addr})
		}
	case 2:
		for i := range w.nodes {
			for j := range w.nodes {
				if i != j {
					w.nodes[i].sg.JoinOnBoot([]string{w.nodes[j].addr})
				}
			}
		}
	}
	synctest.Wait()
	w.checkAll()
	neps := c.Int("endpoints")
	if neps < 1 {
		neps = 1
	}
	pick := func(a int, ok func(*node) bool) *node {
		var cand []*node
		for _, n := range w.nodes {
			if ok(n) {
				cand = append(cand, n)
			}
		}
		if len(cand) == 0 {
			return nil
		}
		return cand[a%len(cand)]
	}
	alive := func(n *node) bool { return n.alive }
	member := func(n *node) bool { return n.alive && !n.left }
	for i, op := range c.Script {
		if run.Stop() {
			break
		}
		run.Step = i
		run.Steps++
		dupWithSibling := false
		var opNode *node
		switch op.K {
		case "add":
			if x := pick(op.A, member); x != nil {
				u := w.add(x, endpointNames[op.B%neps])
				run.Logf("n%d add upstream #%d on %q", x.idx, u.id, u.endpoint)
			}
		case "remove":
			if x := pick(op.A, member); x != nil {
				var live []*fakeUpstream
				for _, ep := range endpointNames {
					live = append(live, x.reg[ep]...)
				}
				if len(live) > 0 {
					u := live[op.B%len(live)]
					run.Logf("n%d remove upstream #%d of %q", x.idx, u.id, u.endpoint)
					w.remove(x, u)
				}
			}
		case "dupremove":
			// removal of an upstream that may already be gone (go-away: the proxy
			// dropped it, later the connection handler deregisters it again)
			if x := pick(op.A, member); x != nil && len(x.all) > 0 {
				u := x.all[op.B%len(x.all)]
				was := false
				for _, r := range x.reg[u.endpoint] {
					if r == u {
						was = true
					}
				}
				sib := len(x.reg[u.endpoint])
				run.Logf("n%d remove upstream #%d of %q (registered=%v, %d registered on the endpoint)", x.idx, u.id, u.endpoint, was, sib)
				if !was {
					run.Probe("c05.late_or_repeated_removal")
					if sib > 0 {
						run.Probe("c05.double_remove_with_sibling")
						dupWithSibling = true
					}
				}
				w.remove(x, u)
				opNode = x
			}
		case "select":
			if x := pick(op.A, member); x != nil {
				w.selectOn(x, endpointNames[op.B%neps], op.C%3 != 0)
			}
		case "round":
			if x := pick(op.A, alive); x != nil {
				var peers []string
				for _, m := range x.g.Nodes() {
					if m.ID != x.id && !m.Left {
						peers = append(peers, m.ID)
					}
				}
				sortStrings(peers)
				if len(peers) > 0 {
					p := peers[op.B%len(peers)]
					run.Logf("n%d round with %s", x.idx, p)
					x.g.VerifRound(p)
				}
			}
		case "deliver":
			if p := w.take(op.A, true); p != nil {
				run.Logf("deliver #%d %s->%s type=%d len=%d", p.seq, p.src, p.dst, p.b[0], len(p.b))
				w.deliver(p)
			}
		case "drop":
			if p := w.take(op.A, true); p != nil {
				run.Fault("pkt_drop")
			}
		case "dup":
			if p := w.take(op.A, false); p != nil {
				run.Fault("pkt_dup")
				w.deliver(p)
			}
		case "flush":
			w.flush(48)
		case "compact":
			if x := pick(op.A, alive); x != nil {
				run.Logf("n%d compact(%d)", x.idx, op.C)
				x.g.VerifCompact(op.C)
			}
		case "advance":
			run.Logf("advance %v", time.Duration(op.D))
			if time.Duration(op.D) >= 10*time.Second {
				w.dropPending()
			}
			time.Sleep(time.Duration(op.D))
		case "liveness":
			if x := pick(op.A, alive); x != nil {
				run.Logf("n%d update liveness", x.idx)
				x.g.VerifUpdateLiveness()
			}
		case "expire":
			if x := pick(op.A, alive); x != nil {
				run.Logf("n%d expiry sweep", x.idx)
				x.g.VerifRemoveExpired()
			}
		case "leave":
			if x := pick(op.A, member); x != nil && len(w.members()) > 2 {
				run.Logf("n%d leave", x.idx)
				// a departing server first closes its upstreams
				for _, ep := range endpointNames {
					for _, u := range append([]*fakeUpstream(nil), x.reg[ep]...) {
						w.remove(x, u)
					}
				}
				x.left = true
				_ = x.g.Leave()
				synctest.Wait()
				if op.B%2 == 0 {
					x.sg.Close()
					x.alive = false
				}
				run.Probe("leave")
			}
		case "crash":
			if x := pick(op.A, member); x != nil && len(w.members()) > 2 {
				run.Logf("n%d crash", x.idx)
				w.nw.Crash(x.host, true)
				x.alive, x.crashed = false, true
				run.Probe("crash")
			}
		case "addnode":
			if len(w.nodes) < 6 {
				nd := w.addNode()
				run.Logf("added n%d", nd.idx)
				if t := pick(op.A, func(n *node) bool { return member(n) && n != nd }); t != nil {
					nd.sg.JoinOnBoot([]string{t.addr})
					synctest.Wait()
				}
				run.Probe("late_joiner")
			}
		case "join":
			a, b := pick(op.A, member), pick(op.B, member)
			if a != nil && b != nil && a != b {
				a.sg.JoinOnBoot([]string{b.addr})
				synctest.Wait()
			}
		}
		synctest.Wait()
		if dupWithSibling && opNode != nil {
			w.checkCounts(opNode, true)
		}
		w.checkAll()
	}
	// C20.rest / C04 after settling: reliable fair sweeps, then everything must agree
	if !run.Stop() && w.maxPkt >= 500 {
		w.dropPending()
		ms := w.members()
		for i := 1; i < len(ms); i++ {
			if _, ok := ms[i].g.Node(ms[0].id); !ok {
				ms[i].sg.JoinOnBoot([]string{ms[0].addr})
				synctest.Wait()
			}
		}
		for sweep := 0; sweep < 60 && !w.converged(); sweep++ {
			for _, a := range ms {
				for _, b := range ms {
					if a != b && a.g.VerifRound(b.id) {
						w.flush(16)
					}
				}
			}
		}
		w.checkAll()
		if w.converged() {
			run.Probe("settled")
			w.checkSettledTables()
		}
	}
	if run.ProbeCount("c04.caught_up") > 0 || run.ProbeCount("c15.full_window_checked") > 0 || run.ProbeCount("c05.late_or_repeated_removal") > 0 {
		run.Probe("nontrivial")
	}
	run.Summary = fmt.Sprintf("driven nodes=%d endpoints=%d max_packet=%d steps=%d first=%v", len(w.nodes), neps, w.maxPkt, len(c.Script), firstOps(c.Script, 6))
}

// checkSettledTables: after convergence every member lists every member as an
// exact copy of what that member advertises (C04 / C20.rest).
func (w *world) checkSettledTables() {
	for _, o := range w.members() {
		for _, x := range w.members() {
			if o == x {
				continue
			}
			n, ok := o.state.Node(x.id)
			if !ok {
				sig := "caught-up-but-absent"
				if o.expiredOnce[x.id] || w.gapPossible[x.id] {
					sig += "-after-expiry-relearn"
				}
				w.run.Fail("C04.mirror", sig, "settled: n%d does not list member n%d", o.idx, x.idx)
				continue
			}
			truth := map[string]int{}
			for ep, l := range x.reg {
				truth[ep] = len(l)
			}
			te := n.Endpoints
			if te == nil {
				te = map[string]int{}
			}
			if !mapEq(te, truth) && !o.expiredOnce[x.id] && !w.gapPossible[x.id] {
				w.run.Fail("C20.rest", "settled-table-differs-from-registry", "settled: n%d lists n%d with %s, its registered upstreams are %s", o.idx, x.idx, fmtMap(te), fmtMap(truth))
			}
			_ = cluster.NodeStatusActive
		}
	}
}

func firstOps(s []simkit.Op, n int) []string {
	var out []string
	for i := 0; i < len(s) && i < n; i++ {
		out = append(out, s[i].String())
	}
	return out
}

func sortStrings(s []string) {
	for i := 1; i < len(s); i++ {
		for j := i; j > 0 && s[j] < s[j-1]; j-- {
			s[j], s[j-1] = s[j-1], s[j]
		}
	}
}

// ------------------------------------------------------------ concurrent family (C05 C15 C20)

func genConcurrent(prop string) func(rng *simkit.Rand, tier string, idx int) *simkit.Case {
	return func(rng *simkit.Rand, tier string, idx int) *simkit.Case {
		c := &simkit.Case{Family: "h2.concurrent", Cfg: map[string]int64{}}
		c.Cfg["nodes"] = int64(rng.Range(1, 3))
		c.Cfg["endpoints"] = int64(rng.Range(1, 3))
		c.Cfg["workers"] = int64(rng.Range(2, 5))
		c.Cfg["ops"] = int64(rng.Range(4, 30))
		c.Cfg["interval_ms"] = int64([]int{20, 50}[rng.Intn(2)])
		c.Cfg["yield_den"] = []int64{2, 2, 8, 64}[rng.Intn(4)]
		c.Cfg["max_packet"] = 1400
		c.Cfg["net_quantum_us"] = []int64{0, 1000}[rng.Intn(2)]
		c.Cfg["late_joiners"] = int64(rng.Intn(3))
		return c
	}
}

// execConcurrent: worker goroutines add/remove/select upstreams on the nodes
// while real gossip tickers, liveness, compaction, expiry and status reads run.
func execConcurrent(run *simkit.Run) {
	c := run.Case
	interval := time.Duration(c.Int("interval_ms")) * time.Millisecond
	w := newWorld(run, c.Int("nodes"), 1400, interval, false, simnet.Config{PktDelay: 200 * time.Microsecond, PktJitter: time.Millisecond,
		Quantum: time.Duration(c.Int("net_quantum_us")) * time.Microsecond})
	defer w.closeAll()
	if run.Stop() {
		return
	}
	for i := 1; i < len(w.nodes); i++ {
		w.nodes[i].sg.JoinOnBoot([]string{w.nodes[0].addr})
	}
	neps := c.Int("endpoints")
	var wg sync.WaitGroup
	var slowest time.Duration
	var smu sync.Mutex
	// Every registry/selector call is recorded (invoke and return stamped with
	// the history's event sequence number) and checked afterwards for
	// linearizability against the sequential registry model, per node and
	// endpoint. Upstreams are shared by the workers of a node, and a removal
	// is sometimes repeated by another worker (go-away seen by the proxy and
	// the connection closing: the same upstream removed twice, concurrently).
	hist := simkit.NewHistory()
	pools := map[int][]*fakeUpstream{} // per node: upstreams that may (still or again) be removed
	var all []*fakeUpstream
	for wi := 0; wi < c.Int("workers"); wi++ {
		wg.Add(1)
		nd := w.nodes[wi%len(w.nodes)]
		go func(wi int, rng *simkit.Rand) {
			defer wg.Done()
			for k := 0; k < c.Int("ops"); k++ {
				t0 := time.Now()
				switch r := rng.Intn(12); {
				case r < 4:
					smu.Lock()
					w.nup++
					u := &fakeUpstream{endpoint: endpointNames[rng.Intn(neps)], id: w.nup, node: nd.idx}
					all = append(all, u)
					smu.Unlock()
					part := fmt.Sprintf("n%d/%s", nd.idx, u.endpoint)
					call := hist.Stamp()
					u.addCall = int(call)
					nd.mgr.AddConn(u)
					hist.Done(part, wi, call, regIn{Kind: "add", U: u.id}, regOut{})
					smu.Lock()
					pools[nd.idx] = append(pools[nd.idx], u)
					smu.Unlock()
				case r < 7:
					smu.Lock()
					pl := pools[nd.idx]
					if len(pl) == 0 {
						smu.Unlock()
						continue
					}
					j := rng.Intn(len(pl))
					u := pl[j]
					if rng.Intn(3) != 0 {
						pools[nd.idx] = append(pl[:j:j], pl[j+1:]...)
					} else if u.removed {
						run.Probe("c05.duplicate_removal")
					}
					u.removed = true
					smu.Unlock()
					part := fmt.Sprintf("n%d/%s", nd.idx, u.endpoint)
					call := hist.Stamp()
					nd.mgr.RemoveConn(u)
					hist.Done(part, wi, call, regIn{Kind: "remove", U: u.id}, regOut{})
					smu.Lock()
					if u.removeRet == 0 {
						u.removeRet = int(hist.Stamp())
					}
					smu.Unlock()
				case r < 9:
					ep := endpointNames[rng.Intn(neps)]
					allowRemote := rng.Bool()
					part := fmt.Sprintf("n%d/%s", nd.idx, ep)
					call := hist.Stamp()
					u, ok := nd.mgr.Select(ep, allowRemote)
					out := regOut{None: !ok}
					if ok && u == nil {
						run.Fail("C15.valid", "nil-upstream", "n%d concurrent Select(%q) reported success without an upstream", nd.idx, ep)
					} else if ok {
						if fu, isLocal := u.(*fakeUpstream); isLocal {
							out.Local = fu.id
							smu.Lock()
							rr := fu.removeRet
							smu.Unlock()
							switch {
							case fu.endpoint != ep:
								run.Fail("C15.valid", "upstream-of-other-endpoint", "n%d concurrent Select(%q) returned an upstream of %q", nd.idx, ep, fu.endpoint)
							case fu.node != nd.idx:
								run.Fail("C15.valid", "upstream-of-other-node", "n%d concurrent Select(%q) returned an upstream registered on n%d", nd.idx, ep, fu.node)
							case rr != 0 && int64(rr) < call:
								run.Fail("C15.valid", "removed-upstream-returned", "n%d concurrent Select(%q) returned upstream #%d whose removal had completed before the selection began", nd.idx, ep, fu.id)
							}
							run.Probe("c15.concurrent_select_checked")
						} else {
							out.Remote = true
							if !allowRemote {
								run.Fail("C15.noforward", "remote-despite-no-forward", "n%d concurrent Select(%q, allowRemote=false) returned a remote node", nd.idx, ep)
							}
						}
					}
					hist.Done(part, wi, call, regIn{Kind: "select"}, out)
				case r < 11:
					// status reads: what the node publishes, what the registry lists
					ep := endpointNames[rng.Intn(neps)]
					part := fmt.Sprintf("n%d/%s", nd.idx, ep)
					if rng.Bool() {
						call := hist.Stamp()
						n := nd.state.LocalNode().Endpoints[ep]
						hist.Done(part, wi, call, regIn{Kind: "advertised"}, regOut{Count: n})
					} else {
						call := hist.Stamp()
						n := nd.mgr.Endpoints()[ep]
						hist.Done(part, wi, call, regIn{Kind: "registered"}, regOut{Count: n})
					}
				default:
					_ = nd.state.Nodes()
					_ = nd.mgr.Endpoints()
					_ = nd.g.Nodes()
					nd.g.VerifCompact(1)
				}
				if d := time.Since(t0); d > 0 {
					smu.Lock()
					if d > slowest {
						slowest = d
					}
					smu.Unlock()
				}
				if rng.Intn(3) == 0 {
					// on a millisecond grid, so that the workers' activity coincides (same
					// virtual instant) with deliveries and membership changes and the
					// scheduler decides the interleaving
					time.Sleep(time.Duration(1+rng.Intn(3)) * time.Millisecond)
				}
			}
		}(wi, run.Aux.Fork())
	}
	// membership churn while the workers run: nodes that join late are first
	// "pending" in every syncer, which is where the syncer's own lock is taken
	// from inside gossip's notification path
	seedAddr := w.nodes[0].addr // read before the joiners append to w.nodes
	for j := 0; j < c.Int("late_joiners"); j++ {
		wg.Add(1)
		go func(rng *simkit.Rand) {
			defer wg.Done()
			time.Sleep(time.Duration(rng.Intn(20)) * time.Millisecond)
			smu.Lock()
			nd := w.addNode()
			smu.Unlock()
			nd.sg.JoinOnBoot([]string{seedAddr})
			run.Probe("c20.late_joiner_during_activity")
		}(run.Aux.Fork())
	}
	wg.Wait()
	// what was added and never removed is the ground truth at rest
	for _, u := range all {
		if !u.removed {
			w.nodes[u.node].reg[u.endpoint] = append(w.nodes[u.node].reg[u.endpoint], u)
		}
	}
	// C05: registrations, (repeated) removals and reads of the advertised count
	// are linearizable: some order of the concurrent calls explains every count.
	if res := hist.Check(registryModel, func(in any) bool { k := in.(regIn).Kind; return k != "select" && k != "registered" }, 48); res.BadPart != "" {
		run.LogBad(res)
		run.Fail("C05.linear", "advertised-count-not-linearizable", "no sequential order of the concurrent AddConn/RemoveConn calls on %s explains the advertised counts that were read (%d operations, see log)", res.BadPart, len(res.BadOps))
	} else {
		run.ProbeN("c05.linearizable_partitions", res.Checked)
		run.ProbeN("lin.skipped_partitions", res.Skipped)
	}
	// C15: selections are linearizable against the same registry: each returns
	// an upstream registered at its linearization point and respects round robin.
	if res := hist.Check(registryModel, func(in any) bool { return in.(regIn).Kind != "advertised" }, 48); res.BadPart != "" {
		run.LogBad(res)
		run.Fail("C15.linear", "selection-not-linearizable", "no sequential order of the concurrent AddConn/RemoveConn/Select calls on %s explains the selections (%d operations, see log)", res.BadPart, len(res.BadOps))
	} else {
		run.ProbeN("c15.linearizable_partitions", res.Checked)
	}
	if slowest > time.Second {
		run.Fail("C20.bounded", "operation-blocked", "a registry/selection/status operation took %v of virtual time", slowest)
	}
	// activity stops: let gossip settle, then registry, routing tables and published state agree
	deadline := time.Now().Add(200 * interval)
	for time.Now().Before(deadline) {
		time.Sleep(10 * interval)
		synctest.Wait()
		if w.converged() {
			break
		}
	}
	synctest.Wait()
	for _, nd := range w.nodes {
		w.checkCounts(nd, false)
		w.checkRouting(nd)
	}
	if w.converged() {
		w.checkSettledTables()
		run.Probe("settled")
	} else {
		run.Fail("C20.rest", "not-settled", "gossip did not settle %v after activity stopped", 200*interval)
	}
	run.Probe("nontrivial")
	run.Summary = fmt.Sprintf("concurrent nodes=%d workers=%d ops=%d interval=%v yield=1/%d", len(w.nodes), c.Int("workers"), c.Int("ops"), interval, c.Int("yield_den"))
}

func init() {
	reg := func(prop string, every int) {
		d, cc := genDriven(prop), genConcurrent(prop)
		simkit.Register(&simkit.Prop{ID: prop, Exec: func(run *simkit.Run) {
			if run.Case.Family == "h2.concurrent" {
				execConcurrent(run)
			} else {
				execDriven(run)
			}
		}, Gen: func(rng *simkit.Rand, tier string, idx int) *simkit.Case {
			if every > 0 && idx%every == every-1 {
				return cc(rng, tier, idx)
			}
			return d(rng, tier, idx)
		}})
	}
	reg("C04", 0)
	reg("C05", 3)
	reg("C15", 4)
	reg("C20", 2)
}
