// Package h2 is the routing-level harness "routesim" (DESIGN.md section 3, H2):
// per node the real pkg/gossip.Gossip + server/gossip syncer + cluster.State +
// upstream.LoadBalancedManager, on the simulated network under the seeded
// scheduler. Serves C04 C05 C15 C20.
package h2

import (
	"fmt"
	"net"
	"sort"
	"strconv"
	"strings"
	"sync"
	"testing/synctest"
	"time"

	pgossip "github.com/andydunstall/piko/pkg/gossip"
	"github.com/andydunstall/piko/pkg/log"
	"github.com/andydunstall/piko/server/cluster"
	sgossip "github.com/andydunstall/piko/server/gossip"
	"github.com/andydunstall/piko/server/upstream"
	"github.com/andydunstall/piko/verifsim/simkit"
	"github.com/andydunstall/piko/verifsim/simnet"
)

const gossipPort = 8003

// fakeUpstream is a registered upstream connection as the manager sees it.
type fakeUpstream struct {
	endpoint string
	id       int
	node     int

	addCall   int // event sequence number at which AddConn was invoked (concurrent family)
	removeRet int // event sequence number after the first RemoveConn returned (0 = never removed)
	removed   bool // a removal has been issued (concurrent family)
}

func (u *fakeUpstream) EndpointID() string      { return u.endpoint }
func (u *fakeUpstream) Dial() (net.Conn, error) { return nil, fmt.Errorf("fake") }
func (u *fakeUpstream) Forward() bool           { return false }

type node struct {
	idx     int
	id      string
	addr    string
	host    string
	state   *cluster.State
	mgr     *upstream.LoadBalancedManager
	sg      *sgossip.Gossip
	g       *pgossip.Gossip
	alive   bool
	left    bool
	crashed bool

	// ground truth: upstreams currently registered, in registration order per endpoint
	reg map[string][]*fakeUpstream
	all []*fakeUpstream // every upstream ever created on this node (for late/duplicate removals)

	// C15 bookkeeping: selections since the membership of the endpoint last changed
	sel map[string][]*fakeUpstream

	prevKnown   map[string]bool // gossip members at the previous check
	expiredOnce map[string]bool // nodes this observer has forgotten at least once
}

type packet struct {
	src, dst string
	b        []byte
	seq      int
}

type world struct {
	run    *simkit.Run
	// gapPossible: ids that some observer has forgotten and learnt again (F4);
	// the version gap is inherited by whoever learns the node from it.
	gapPossible map[string]bool
	nw     *simnet.Net
	nodes  []*node
	byID   map[string]*node
	byAddr map[string]*node
	driven bool
	maxPkt int
	intv   time.Duration

	mu   sync.Mutex
	pend []*packet
	seq  int
	nup  int
}

var endpointNames = []string{"e1", "e10", "prod-api", "tenant-x", "noted", "opt.in", "e1.x", "0a1b"}

func newWorld(run *simkit.Run, n, maxPkt int, interval time.Duration, driven bool, ncfg simnet.Config) *world {
	w := &world{run: run, byID: map[string]*node{}, byAddr: map[string]*node{}, driven: driven, maxPkt: maxPkt, intv: interval}
	w.nw = simnet.Reset(run, ncfg)
	w.nw.MarkGossipPort(gossipPort)
	if driven {
		w.nw.Intercept = w.intercept
	}
	for i := 0; i < n; i++ {
		w.addNode()
	}
	return w
}

func (w *world) addNode() *node {
	i := len(w.nodes)
	nd := &node{idx: i, id: fmt.Sprintf("n%d", i), host: fmt.Sprintf("10.0.0.%d", i+1), alive: true,
		reg: map[string][]*fakeUpstream{}, sel: map[string][]*fakeUpstream{}, prevKnown: map[string]bool{}, expiredOnce: map[string]bool{}}
	nd.addr = fmt.Sprintf("%s:%d", nd.host, gossipPort)
	done := make(chan struct{})
	go func() {
		defer close(done)
		simnet.SetHost(nd.host)
		nd.state = cluster.NewState(&cluster.Node{ID: nd.id, ProxyAddr: nd.host + ":8000", AdminAddr: nd.host + ":8002"}, log.NewNopLogger())
		nd.mgr = upstream.NewLoadBalancedManager(nd.state, nil)
		sl, err := simnet.Listen("tcp", nd.addr)
		if err != nil {
			w.run.Fail("SIM.setup", "listen", "%v", err)
			return
		}
		pl, err := simnet.ListenPacket("udp", nd.addr)
		if err != nil {
			w.run.Fail("SIM.setup", "listenudp", "%v", err)
			return
		}
		nd.sg = sgossip.NewGossip(nd.state, sl, pl, &pgossip.Config{BindAddr: nd.addr, AdvertiseAddr: nd.addr, Interval: w.intv, MaxPacketSize: w.maxPkt}, log.NewNopLogger())
		nd.g = nd.sg.VerifGossiper()
		if w.driven {
			nd.g.VerifProductionDetector(200 * time.Millisecond)
		}
	}()
	<-done
	w.nodes = append(w.nodes, nd)
	w.byID[nd.id] = nd
	w.byAddr[nd.addr] = nd
	return nd
}

func (w *world) closeAll() {
	for _, nd := range w.nodes {
		if nd.sg != nil {
			nd.sg.Close()
		}
	}
}

func (w *world) intercept(src, dst string, b []byte) bool {
	w.mu.Lock()
	w.seq++
	w.pend = append(w.pend, &packet{src: src, dst: dst, b: b, seq: w.seq})
	w.mu.Unlock()
	return true
}

func (w *world) take(k int, remove bool) *packet {
	w.mu.Lock()
	defer w.mu.Unlock()
	if len(w.pend) == 0 {
		return nil
	}
	i := k % len(w.pend)
	p := w.pend[i]
	if remove {
		w.pend = append(w.pend[:i:i], w.pend[i+1:]...)
	}
	return p
}

func (w *world) dropPending() {
	w.mu.Lock()
	w.pend = nil
	w.mu.Unlock()
}

func (w *world) deliver(p *packet) {
	dst := w.byAddr[p.dst]
	if dst == nil || !dst.alive {
		w.run.Fault("pkt_to_dead")
		return
	}
	time.Sleep(time.Millisecond)
	w.nw.Inject(p.src, p.dst, p.b)
	synctest.Wait()
}

func (w *world) flush(max int) {
	for n := 0; n < max; n++ {
		p := w.take(0, true)
		if p == nil {
			return
		}
		w.deliver(p)
	}
}

func (w *world) members() []*node {
	var out []*node
	for _, n := range w.nodes {
		if n.alive && !n.left && !n.crashed {
			out = append(out, n)
		}
	}
	return out
}

// ------------------------------------------------------------ local operations

func (w *world) add(nd *node, ep string) *fakeUpstream {
	w.nup++
	u := &fakeUpstream{endpoint: ep, id: w.nup, node: nd.idx}
	nd.mgr.AddConn(u)
	nd.reg[ep] = append(nd.reg[ep], u)
	nd.all = append(nd.all, u)
	nd.sel[ep] = nil
	return u
}

// remove deregisters u; it may already be gone (the ErrGone-then-disconnect
// pattern: the proxy removed it, later the upstream handler removes it again).
func (w *world) remove(nd *node, u *fakeUpstream) (wasRegistered bool) {
	nd.mgr.RemoveConn(u)
	l := nd.reg[u.endpoint]
	for i, x := range l {
		if x == u {
			nd.reg[u.endpoint] = append(l[:i:i], l[i+1:]...)
			if len(nd.reg[u.endpoint]) == 0 {
				delete(nd.reg, u.endpoint)
			}
			nd.sel[u.endpoint] = nil
			return true
		}
	}
	return false
}

// selectLocal performs Select and judges it (C15).
func (w *world) selectOn(nd *node, ep string, allowForward bool) {
	run := w.run
	u, ok := nd.mgr.Select(ep, allowForward)
	members := nd.reg[ep]
	if len(members) > 0 {
		if !ok || u == nil {
			run.Fail("C15.valid", "no-upstream-although-registered", "n%d Select(%q) found nothing although %d upstreams are registered", nd.idx, ep, len(members))
			return
		}
		fu, isLocal := u.(*fakeUpstream)
		if !isLocal {
			run.Fail("C15.valid", "remote-although-local", "n%d Select(%q) returned a remote node although %d local upstreams are registered", nd.idx, ep, len(members))
			return
		}
		found := false
		for _, m := range members {
			if m == fu {
				found = true
			}
		}
		if !found {
			sig := "removed-upstream-returned"
			if fu.endpoint != ep {
				sig = "upstream-of-other-endpoint"
			}
			run.Fail("C15.valid", sig, "n%d Select(%q) returned upstream #%d of endpoint %q which is not registered for it", nd.idx, ep, fu.id, fu.endpoint)
			return
		}
		// fairness: with a stable set of n, any n consecutive selections are distinct
		h := append(nd.sel[ep], fu)
		n := len(members)
		if len(h) > 2*n {
			h = h[len(h)-2*n:]
		}
		nd.sel[ep] = h
		if len(h) >= n {
			seen := map[*fakeUpstream]bool{}
			for _, x := range h[len(h)-n:] {
				if seen[x] {
					run.Fail("C15.fair", "repeat-within-window", "n%d endpoint %q: upstream #%d selected twice within %d consecutive selections of a stable set of %d", nd.idx, ep, x.id, n, n)
					break
				}
				seen[x] = true
			}
			run.Probe("c15.full_window_checked")
		}
		return
	}
	// no local upstream
	if !allowForward {
		if ok {
			run.Fail("C15.no-remote", "remote-when-not-allowed", "n%d Select(%q, allowForward=false) returned an upstream although none is registered locally", nd.idx, ep)
		}
		return
	}
	if ok {
		if _, isLocal := u.(*fakeUpstream); isLocal {
			run.Fail("C15.valid", "removed-upstream-returned", "n%d Select(%q) returned a local upstream although none is registered", nd.idx, ep)
			return
		}
		nu, isNode := u.(*upstream.NodeUpstream)
		if !isNode || !nu.Forward() || nu.EndpointID() != ep {
			run.Fail("C15.valid", "bad-remote", "n%d Select(%q) returned an unexpected upstream %T", nd.idx, ep, u)
		}
		run.Probe("c15.remote_selected")
	}
}

// ------------------------------------------------------------ oracles at quiescence

func endpointsOf(ns *pgossip.NodeState) (map[string]int, string, string) {
	eps := map[string]int{}
	proxy, admin := "", ""
	for _, e := range ns.Entries {
		if e.Internal || e.Deleted {
			continue
		}
		switch {
		case e.Key == "proxy_addr":
			proxy = e.Value
		case e.Key == "admin_addr":
			admin = e.Value
		case strings.HasPrefix(e.Key, "endpoint:"):
			n, err := strconv.Atoi(e.Value)
			if err != nil {
				n = -1
			}
			eps[strings.TrimPrefix(e.Key, "endpoint:")] = n
		}
	}
	return eps, proxy, admin
}

func mapEq(a, b map[string]int) bool {
	if len(a) != len(b) {
		return false
	}
	for k, v := range a {
		if b[k] != v {
			return false
		}
	}
	return true
}

func fmtMap(m map[string]int) string {
	ks := make([]string, 0, len(m))
	for k := range m {
		ks = append(ks, k)
	}
	sort.Strings(ks)
	var sb strings.Builder
	sb.WriteString("{")
	for i, k := range ks {
		if i > 0 {
			sb.WriteString(" ")
		}
		fmt.Fprintf(&sb, "%s:%d", k, m[k])
	}
	sb.WriteString("}")
	return sb.String()
}

// checkCounts: C05.equal on one node.
func (w *world) checkCounts(nd *node, dupRemovalWithSibling bool) {
	run := w.run
	truth := map[string]int{}
	for ep, l := range nd.reg {
		truth[ep] = len(l)
	}
	mg := nd.mgr.Endpoints()
	local := nd.state.LocalNode().Endpoints
	if local == nil {
		local = map[string]int{}
	}
	gs, _, _ := endpointsOf(nd.g.LocalNode())
	sig := "count-mismatch"
	if dupRemovalWithSibling {
		sig = "second-removal-of-unregistered-upstream-with-sibling"
	}
	if !mapEq(mg, truth) {
		run.Fail("C05.equal", "registry-mismatch", "n%d registry holds %s, registered upstreams are %s", nd.idx, fmtMap(mg), fmtMap(truth))
	}
	if !mapEq(local, truth) {
		run.Fail("C05.equal", sig, "n%d routing table advertises %s locally, registered upstreams are %s", nd.idx, fmtMap(local), fmtMap(truth))
	}
	if !mapEq(gs, truth) {
		run.Fail("C05.equal", sig, "n%d publishes %s through gossip, registered upstreams are %s", nd.idx, fmtMap(gs), fmtMap(truth))
	}
}

// checkRouting: C04 rules for observer o.
func (w *world) checkRouting(o *node) {
	run := w.run
	metas := map[string]pgossip.NodeMetadata{}
	for _, m := range o.g.Nodes() {
		metas[m.ID] = m
	}
	table := map[string]*cluster.Node{}
	for _, n := range o.state.Nodes() {
		table[n.ID] = n
	}
	for id := range o.prevKnown {
		if _, ok := metas[id]; !ok {
			o.expiredOnce[id] = true
			if w.gapPossible == nil {
				w.gapPossible = map[string]bool{}
			}
			w.gapPossible[id] = true
		}
	}
	o.prevKnown = map[string]bool{}
	for id := range metas {
		o.prevKnown[id] = true
	}
	// F4: a node forgotten and learnt again may be re-created from a delta that
	// answers a digest sent before it was forgotten; such a delta starts after
	// the old version, so everything up to it is missing for good.
	after := func(sig, id string) string {
		if o.expiredOnce[id] || w.gapPossible[id] {
			return sig + "-after-expiry-relearn"
		}
		return sig
	}
	for id, n := range table {
		if id == o.id {
			if n.Status != cluster.NodeStatusActive {
				run.Fail("C11.local", "local-not-active", "n%d's routing table shows itself as %s", o.idx, n.Status)
			}
			continue
		}
		if n.ProxyAddr == "" || n.AdminAddr == "" {
			run.Fail("C04.pending", "promoted-without-addresses", "n%d's routing table lists %s with proxy=%q admin=%q", o.idx, id, n.ProxyAddr, n.AdminAddr)
		}
		m, known := metas[id]
		if !known {
			run.Fail("C04.mirror", "table-node-unknown-to-gossip", "n%d's routing table lists %s which its gossip view has forgotten", o.idx, id)
			continue
		}
		want := cluster.NodeStatusActive
		if m.Left {
			want = cluster.NodeStatusLeft
		} else if m.Unreachable {
			want = cluster.NodeStatusUnreachable
		}
		if n.Status != want {
			sig := "status-mismatch"
			if want != cluster.NodeStatusActive && n.Status == cluster.NodeStatusActive {
				sig = "active-although-" + string(want)
			}
			run.Fail("C04.mirror", sig, "n%d's routing table shows %s as %s, gossip flags say %s (left=%v unreachable=%v)", o.idx, id, n.Status, want, m.Left, m.Unreachable)
		}
	}
	for _, x := range w.nodes {
		if x == o {
			continue
		}
		ns, ok := o.g.Node(x.id)
		if !ok {
			continue
		}
		own := x.g.LocalNode()
		if ns.Version != own.Version {
			if ns.Version > 0 {
				run.Probe("c04.partial_view")
			}
			continue
		}
		run.Probe("c04.caught_up")
		// o has caught up with everything x published
		eps, proxy, admin := endpointsOf(own)
		t := table[x.id]
		if proxy == "" || admin == "" {
			continue
		}
		if t == nil && metas[x.id].Left {
			// a node first learnt as (or while) departing is dropped from the pending
			// set and never promoted: nothing routes to a departed node anyway
			run.Probe("c04.departed_node_not_listed")
			continue
		}
		if t == nil {
			run.Fail("C04.mirror", after("caught-up-but-absent", x.id), "n%d has caught up with n%d (version %d) but its routing table does not list it", o.idx, x.idx, own.Version)
			continue
		}
		if t.ProxyAddr != proxy || t.AdminAddr != admin {
			run.Fail("C04.mirror", "address-mismatch", "n%d lists n%d at proxy=%s admin=%s, the owner publishes %s / %s", o.idx, x.idx, t.ProxyAddr, t.AdminAddr, proxy, admin)
		}
		te := t.Endpoints
		if te == nil {
			te = map[string]int{}
		}
		if !mapEq(te, eps) {
			sig := "endpoints-mismatch"
			for k := range te {
				if _, ok := eps[k]; !ok {
					sig = "withdrawn-endpoint-still-listed"
				}
			}
			run.Fail("C04.mirror", after(sig, x.id), "n%d has caught up with n%d (version %d) but lists endpoints %s, the owner advertises %s", o.idx, x.idx, own.Version, fmtMap(te), fmtMap(eps))
		}
	}
	// lookups
	for _, ep := range endpointNames {
		n, ok := o.state.LookupEndpoint(ep)
		if !ok {
			continue
		}
		t := table[n.ID]
		switch {
		case n.ID == o.id:
			run.Fail("C04.lookup", "returned-local", "n%d LookupEndpoint(%q) returned the local node", o.idx, ep)
		case t == nil:
			run.Fail("C04.lookup", "returned-unknown", "n%d LookupEndpoint(%q) returned %s which is not in its table", o.idx, ep, n.ID)
		case t.Status != cluster.NodeStatusActive:
			run.Fail("C04.lookup", "returned-non-active", "n%d LookupEndpoint(%q) returned %s whose status is %s", o.idx, ep, n.ID, t.Status)
		case t.Endpoints[ep] <= 0:
			run.Fail("C04.lookup", "returned-non-advertiser", "n%d LookupEndpoint(%q) returned %s which advertises no upstream for it", o.idx, ep, n.ID)
		default:
			if m := metas[n.ID]; m.Left || m.Unreachable {
				run.Fail("C04.lookup", "returned-non-active", "n%d LookupEndpoint(%q) returned %s which gossip marks left=%v unreachable=%v", o.idx, ep, n.ID, m.Left, m.Unreachable)
			}
			run.Probe("c04.lookup_hit")
		}
	}
}

func (w *world) checkAll() {
	for _, nd := range w.nodes {
		if !nd.alive {
			continue
		}
		w.checkCounts(nd, false)
		w.checkRouting(nd)
	}
}

// converged: every member's view of every member is complete.
func (w *world) converged() bool {
	for _, o := range w.members() {
		for _, x := range w.members() {
			if o == x {
				continue
			}
			ns, ok := o.g.Node(x.id)
			if !ok || ns.Version != x.g.LocalNode().Version {
				return false
			}
		}
	}
	return true
}
