package h2

import (
	"fmt"
	"sort"
	"strconv"
	"strings"

	"github.com/andydunstall/piko/verifsim/porcupine"
)

// Sequential reference model of one endpoint's registry on one node, used by
// porcupine: a set of registered upstream ids plus the selections made since
// the set last changed.
//
//	add(u)        u joins the set
//	remove(u)     u leaves the set; removing an unregistered upstream changes nothing
//	select        returns a member - one not among the last min(n-1, since-change)
//	              selections, n = size of the set (with a stable set any n consecutive
//	              selections return each member once) - or, when the set is empty,
//	              a remote node / nothing
//	advertised    the count the node publishes = size of the set
//	registered    the count the registry lists  = size of the set
//
// The state is kept as a string so that porcupine can compare and cache it.
type regIn struct {
	Kind string
	U    int
}

type regOut struct {
	Local  int
	Remote bool
	None   bool
	Count  int
}

func regParse(st string) (ids []int, win []int) {
	parts := strings.SplitN(st, "|", 2)
	conv := func(s string) []int {
		var out []int
		for _, f := range strings.Split(s, ",") {
			if f != "" {
				n, _ := strconv.Atoi(f)
				out = append(out, n)
			}
		}
		return out
	}
	if len(parts) == 2 {
		return conv(parts[0]), conv(parts[1])
	}
	return nil, nil
}

func regFormat(ids, win []int) string {
	f := func(l []int) string {
		s := make([]string, len(l))
		for i, v := range l {
			s[i] = strconv.Itoa(v)
		}
		return strings.Join(s, ",")
	}
	return f(ids) + "|" + f(win)
}

var registryModel = porcupine.Model{
	Init: func() interface{} { return "|" },
	Step: func(state, input, output interface{}) (bool, interface{}) {
		ids, win := regParse(state.(string))
		in, out := input.(regIn), output.(regOut)
		has := func(l []int, v int) bool {
			for _, x := range l {
				if x == v {
					return true
				}
			}
			return false
		}
		switch in.Kind {
		case "add":
			if has(ids, in.U) {
				return true, state
			}
			ids = append(ids, in.U)
			sort.Ints(ids)
			return true, regFormat(ids, nil)
		case "remove":
			if !has(ids, in.U) {
				return true, state
			}
			var rest []int
			for _, x := range ids {
				if x != in.U {
					rest = append(rest, x)
				}
			}
			return true, regFormat(rest, nil)
		case "select":
			if out.Local == 0 {
				return len(ids) == 0, state
			}
			if !has(ids, out.Local) || has(win, out.Local) {
				return false, state
			}
			win = append(win, out.Local)
			if keep := len(ids) - 1; len(win) > keep {
				win = win[len(win)-keep:]
			}
			return true, regFormat(ids, win)
		case "advertised", "registered":
			return out.Count == len(ids), state
		}
		return false, state
	},
	DescribeOperation: func(input, output interface{}) string {
		in, out := input.(regIn), output.(regOut)
		switch in.Kind {
		case "add", "remove":
			return fmt.Sprintf("%s(#%d)", in.Kind, in.U)
		case "select":
			switch {
			case out.Local != 0:
				return fmt.Sprintf("select -> #%d", out.Local)
			case out.Remote:
				return "select -> remote"
			}
			return "select -> none"
		}
		return fmt.Sprintf("%s -> %d", in.Kind, out.Count)
	},
}
