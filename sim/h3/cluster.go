package h3

import (
	"bufio"
	"bytes"
	"context"
	"fmt"
	"io"
	"net"
	"net/http"
	"net/url"
	"strings"
	"sync"
	"testing/synctest"
	"time"

	"github.com/andydunstall/piko/client"
	"github.com/andydunstall/piko/server/cluster"
	"github.com/andydunstall/piko/verifsim/simkit"
	"github.com/andydunstall/piko/verifsim/simnet"
)

var httpEndpoints = []string{"e1", "e10", "e1-x", "api", "ghost"} // "ghost" never gets an upstream
var tcpEndpoints = []string{"t1", "t10", "tghost"}

var h3Ops = []string{"listen", "unlisten", "http", "tcp", "wait", "partition", "heal", "shutdown", "kill", "sync", "fwdprobe", "slowclient", "stall", "dropep"}

var h3Profiles = map[string][]int{
	//      lsn unl http tcp wait part heal shut kill sync fwd
	"C01": {14, 8, 34, 10, 14, 3, 3, 1, 1, 4, 0, 0, 0, 2},
	"C06": {14, 6, 24, 18, 10, 10, 4, 0, 0, 2, 10, 0, 0, 8},
	"C05": {20, 18, 14, 4, 14, 2, 2, 0, 0, 2, 0, 0, 0, 2},
	"C16": {22, 22, 14, 4, 10, 2, 2, 3, 1, 2, 0, 5, 3, 2},
}

func genCluster(prop string) func(rng *simkit.Rand, tier string, idx int) *simkit.Case {
	return func(rng *simkit.Rand, tier string, idx int) *simkit.Case {
		c := &simkit.Case{Family: "h3.cluster", Cfg: map[string]int64{}}
		c.Cfg["nodes"] = int64(rng.Range(1, 4))
		if prop == "C06" {
			c.Cfg["nodes"] = int64(rng.Range(2, 4))
		}
		c.Cfg["interval_ms"] = int64([]int{20, 50, 100}[rng.Intn(3)])
		c.Cfg["pkt_drop"] = int64([]int{0, 0, 50, 200}[rng.Intn(4)])
		c.Cfg["pkt_dup"] = int64([]int{0, 50}[rng.Intn(2)])
		c.Cfg["yield_den"] = []int64{0, 64, 8, 2}[rng.Intn(4)]
		c.Cfg["stall_den"] = []int64{0, 0, 200}[rng.Intn(3)] // execution-time fault in a third of the runs
		c.Cfg["stall_max_us"] = 500
		c.Cfg["net_quantum_us"] = []int64{0, 1000}[rng.Intn(2)]
		c.Cfg["stream_delay_us"] = []int64{0, 200, 2000}[rng.Intn(3)]
		c.Cfg["segment"] = []int64{0, 300}[rng.Intn(2)]
		c.Cfg["init_apps"] = int64(rng.Range(0, 5))
		c.Cfg["grace_ms"] = int64([]int{2000, 10000}[rng.Intn(2)])
		steps := rng.Range(8, 40)
		if tier == "thorough" {
			steps = rng.Range(8, 90)
		}
		w := append([]int(nil), h3Profiles[prop]...)
		for i := 0; i < steps; i++ {
			op := simkit.Op{K: h3Ops[rng.Weighted(w)], A: rng.Intn(1 << 16), B: rng.Intn(1 << 16), C: rng.Intn(1 << 16)}
			if op.K == "wait" {
				op.D = int64(time.Duration(rng.Range(1, 60)) * time.Duration(c.Cfg["interval_ms"]) * time.Millisecond)
			}
			c.Script = append(c.Script, op)
		}
		for _, op := range c.Script {
			if op.K == "stall" {
				// a small per-connection window: a request body can fill it
				c.Cfg["window_kb"] = 16
			}
		}
		if prop == "C16" && rng.Intn(3) == 0 {
			// a client that has connected but not spoken yet, then the node stops
			a := rng.Intn(1 << 16)
			m := []simkit.Op{{K: "slowclient", A: a, B: rng.Intn(3)}, {K: "shutdown", A: a}}
			at := rng.Intn(len(c.Script) + 1)
			c.Script = append(c.Script[:at:at], append(m, c.Script[at:]...)...)
		}
		return c
	}
}

type cluster3 struct {
	*world
	slow      []net.Conn
	lastChurn time.Time // last time an upstream connection was made, dropped or a node stopped
	prop     string
	async    int
	requests int
	slowVia  map[string]bool // nodes through whose proxy a request slower than the grace period was sent (C18)
}

func netCfg(c *simkit.Case) simnet.Config {
	return simnet.Config{
		PktDrop: c.I64("pkt_drop"), PktDup: c.I64("pkt_dup"), PktDelay: 200 * time.Microsecond, PktJitter: time.Millisecond,
		StreamDelay: time.Duration(c.Int("stream_delay_us")) * time.Microsecond, StreamJitter: time.Duration(c.Int("stream_delay_us")) * time.Microsecond / 2,
		Segment: c.I64("segment"), ShortRead: c.I64("segment") / 2,
		Quantum: time.Duration(c.Int("net_quantum_us")) * time.Microsecond,
		Window:  c.Int("window_kb") << 10,
	}
}

func execCluster(prop string) func(run *simkit.Run) {
	return func(run *simkit.Run) {
		c := run.Case
		w := &cluster3{world: newWorld(run, netCfg(c)), prop: prop}
		defer w.teardown()
		interval := time.Duration(c.Int("interval_ms")) * time.Millisecond
		for i := 0; i < c.Int("nodes"); i++ {
			w.startNode(nodeOpts{interval: interval, grace: time.Duration(c.Int("grace_ms")) * time.Millisecond})
			if run.Stop() {
				return
			}
		}
		defer func() {
			for _, sc := range w.slow {
				sc.Close()
			}
		}()
		guard := &hopGuard{w: w, counts: map[string]int{}}
		w.nw.OnFirstWrite = guard.onFirstWrite
		rng := run.Aux
		for i := 0; i < c.Int("init_apps"); i++ {
			w.opListen(rng.Intn(1<<16), rng.Intn(1<<16), rng.Intn(1<<16))
		}
		time.Sleep(20 * interval)
		for i, op := range c.Script {
			if run.Stop() {
				break
			}
			run.Step = i
			run.Steps++
			switch op.K {
			case "listen":
				w.opListen(op.A, op.B, op.C)
			case "unlisten":
				w.opUnlisten(op.A, op.B)
			case "http":
				w.opHTTP(op.A, op.B, op.C, false)
			case "tcp":
				w.opTCP(op.A, op.B, op.C, false)
			case "wait":
				time.Sleep(time.Duration(op.D))
			case "partition":
				live := w.liveNodes()
				if len(live) >= 2 {
					a, b := live[op.A%len(live)], live[op.B%len(live)]
					if a != b {
						cl := []int{simnet.ClassGossip, simnet.ClassGossip, simnet.ClassAll}[op.C%3]
						run.Logf("partition %s | %s class=%d", a.id, b.id, cl)
						w.nw.Partition(a.host, b.host, cl)
					}
				}
			case "heal":
				run.Logf("heal")
				w.nw.HealAll()
			case "shutdown":
				if live := w.liveNodes(); len(live) >= 2 {
					w.stopNode(live[op.A%len(live)], true, false)
				}
			case "kill":
				if live := w.liveNodes(); len(live) >= 2 {
					w.stopNode(live[op.A%len(live)], false, op.B%2 == 0)
				}
			case "sync":
				w.wg.Wait()
			case "fwdprobe":
				w.opForwardedProbe(op.A, op.B)
			case "stall":
				w.opStall(op.A, op.B)
			case "dropep":
				w.opDropEndpoint(op.A, op.B)
			case "slowclient":
				// a client that connects to a port and then says nothing (yet)
				if live := w.liveNodes(); len(live) > 0 {
					n := live[op.A%len(live)]
					port := []string{"8001", "8000", "8001"}[op.B%3]
					if conn, err := simnet.Dial("tcp", n.host+":"+port); err == nil {
						run.Logf("slow client connected to %s:%s", n.id, port)
						w.slow = append(w.slow, conn)
						run.Fault("slow_client")
					}
				}
			}
			if prop == "C16" && (op.K == "listen" || op.K == "unlisten" || op.K == "shutdown") && !run.Stop() {
				w.checkRegisteredWhileConnected()
			}
		}
		w.wg.Wait()
		if !run.Stop() && prop == "C16" {
			w.finalDrain()
		} else if !run.Stop() {
			w.finalSettled()
		}
		if w.requests > 0 && len(w.apps) > 0 {
			run.Probe("nontrivial")
		}
		run.Summary = fmt.Sprintf("cluster nodes=%d interval=%v drop=%d‰ apps=%d requests=%d steps=%d first=%v", len(w.nodes), interval, c.Int("pkt_drop"), len(w.apps), w.requests, len(c.Script), firstOps(c.Script, 5))
	}
}

func firstOps(s []simkit.Op, n int) []string {
	var out []string
	for i := 0; i < len(s) && i < n; i++ {
		out = append(out, s[i].String())
	}
	return out
}

func (w *cluster3) opListen(a, b, c int) {
	w.lastChurn = time.Now()
	live := w.liveNodes()
	if len(live) == 0 || len(w.liveApps("")) >= 12 {
		return
	}
	nodeIdx := live[a%len(live)].idx
	var ep, kind string
	if c%4 == 0 {
		ep, kind = tcpEndpoints[b%(len(tcpEndpoints)-1)], "tcp"
	} else {
		ep, kind = httpEndpoints[b%(len(httpEndpoints)-1)], "http"
	}
	if _, err := w.listen(ep, kind, nodeIdx, ""); err != nil {
		w.run.Logf("listen %q on n%d failed: %v", ep, nodeIdx, err)
		w.run.Probe("listen_failed")
	}
}

func (w *cluster3) opUnlisten(a, mode int) {
	apps := w.liveApps("")
	if len(apps) == 0 {
		return
	}
	ap := apps[a%len(apps)]
	w.lastChurn = time.Now().Add(40 * w.intv)
	switch mode % 3 {
	case 0:
		w.run.Logf("app %d (%s) shutdown", ap.id, ap.endpoint)
		ap.shutdown()
	case 1:
		// stop accepting: go-away; the connection is closed a little later
		w.run.Logf("app %d (%s) go-away", ap.id, ap.endpoint)
		ap.goneAway = true
		ap.ln.Close()
		w.run.Probe("app_goaway")
		w.wg.Add(1)
		go func() {
			defer w.wg.Done()
			time.Sleep(30 * w.intv)
			ap.shutdown()
		}()
	case 2:
		// the network drops the connection; the application stays and its
		// listener is expected to reconnect
		w.run.Logf("app %d (%s) connection reset by the network", ap.id, ap.endpoint)
		src := ap.host()
		n := w.nw.ResetConns(func(s, d string) bool { return s == src })
		w.run.ProbeN("app_conn_reset", n)
	}
}

// opDropEndpoint: every upstream application of one endpoint goes away at the
// same instant (the upstream service is redeployed), and requests for it
// arrive at every node right then - while each node that just lost its
// upstream still believes the others have one. Stale tables may cost a 502,
// never a second hop.
func (w *cluster3) opDropEndpoint(a, b int) {
	byEp := map[string][]*app{}
	var eps []string
	for _, ap := range w.liveApps("") {
		if ap.agent != nil {
			continue
		}
		if len(byEp[ap.endpoint]) == 0 {
			eps = append(eps, ap.endpoint)
		}
		byEp[ap.endpoint] = append(byEp[ap.endpoint], ap)
	}
	if len(eps) == 0 {
		return
	}
	// prefer an endpoint served from several nodes
	ep := eps[a%len(eps)]
	for i := range eps {
		cand := eps[(a+i)%len(eps)]
		nodes := map[int]bool{}
		for _, ap := range byEp[cand] {
			nodes[ap.node] = true
		}
		if len(nodes) >= 2 {
			ep = cand
			w.run.Probe("dropep.multi_node_endpoint")
			break
		}
	}
	w.run.Logf("all %d upstream applications of %q go away at once", len(byEp[ep]), ep)
	w.run.Fault("endpoint_dropped")
	w.lastChurn = time.Now().Add(40 * w.intv)
	for _, ap := range byEp[ep] {
		if b%2 == 0 {
			ap.shutdown()
		} else {
			ap.closed = true
			ap.cancel()
			src := ap.host()
			w.nw.ResetConns(func(s, d string) bool { return s == src })
			if ap.ln != nil {
				ap.ln.Shutdown()
			}
			if ap.srv != nil {
				go ap.srv.Close()
			}
		}
	}
	tcp := -1
	for i, t := range tcpEndpoints {
		if t == ep {
			tcp = i
		}
	}
	for round := 0; round < 2; round++ {
		for i := range w.liveNodes() {
			if tcp >= 0 {
				w.opTCP(i, tcp, 1+b%200, false)
			} else {
				for j, h := range httpEndpoints {
					if h == ep {
						w.opHTTP(i, j, 0, false)
					}
				}
			}
		}
		time.Sleep(w.intv / 2)
	}
}

// opStall: the connection of one upstream application stalls (nothing is
// delivered either way for a while, nothing is lost, nothing is closed) while
// requests are sent to it - first ones whose bodies fill the connection's
// window, then ordinary ones, which therefore cannot even open a stream. The
// connection stays open, so the upstream must stay registered.
func (w *cluster3) opStall(a, b int) {
	var cand []*app
	for _, ap := range w.liveApps("") {
		if ap.kind == "http" && ap.node >= 0 && ap.agent == nil && w.nodes[ap.node].alive {
			cand = append(cand, ap)
		}
	}
	if len(cand) == 0 {
		return
	}
	ap := cand[a%len(cand)]
	n := w.nodes[ap.node]
	d := time.Duration(11+b%5) * time.Second
	w.run.Logf("app %d (%s) on %s: connection stalls for %v", ap.id, ap.endpoint, n.id, d)
	w.run.Fault("upstream_conn_stall")
	w.lastChurn = time.Now().Add(d + 30*time.Second)
	w.nw.Partition(ap.host(), n.host, simnet.ClassAll)
	for k := 0; k < 5; k++ {
		rq := w.buildReq(n.idx, ap.endpoint, 0)
		if k < 3 {
			rq.Method = "POST"
			rq.Body = bytes.Repeat([]byte{'s'}, 40<<10)
		}
		w.requests++
		w.wg.Add(1)
		go func() {
			defer w.wg.Done()
			res := w.do(rq)
			if res.Err == nil {
				w.judgeRouting(rq, res)
				w.run.Probe(fmt.Sprintf("stall.http_%d", res.Status))
			}
		}()
		time.Sleep(300 * time.Millisecond)
	}
	time.Sleep(d)
	w.nw.Heal(ap.host(), n.host)
	w.run.Logf("app %d connection flows again", ap.id)
	if w.prop == "C16" && !w.run.Stop() {
		// a session that a keep-alive gave up on is re-established by the listener
		// (back-off up to its maximum): give that time, nothing else
		w.checkRegisteredWithin(70)
	}
}

func (w *cluster3) stopNode(n *node, graceful, reset bool) {
	run := w.run
	w.lastChurn = time.Now().Add(20 * time.Second)
	if graceful {
		run.Logf("%s graceful shutdown begins", n.id)
		n.alive = false
		w.setLB()
		t0 := time.Now()
		done := make(chan struct{})
		go func() {
			simnet.SetHost(n.host)
			n.srv.Shutdown()
			close(done)
		}()
		<-done
		n.stopped = true
		run.Logf("%s graceful shutdown took %v", n.id, time.Since(t0))
		run.Probe("node_shutdown")
		w.quiesce()
		if own := n.srv.ClusterState().LocalNode().Endpoints; len(own) != 0 {
			rule := "C18.withdraw"
			if w.prop == "C16" {
				rule = "C16.while"
			}
			run.Fail(rule, "registered-after-server-shutdown", "%s has shut down but its upstream connections are still registered: [%s]", n.id, epString(own))
		}
	} else {
		run.Logf("%s killed (reset=%v)", n.id, reset)
		n.alive, n.killed = false, true
		w.nw.Crash(n.host, reset)
		w.setLB()
		run.Probe("node_killed")
	}
	// upstream applications that were attached to it are gone for routing
	// purposes until they reconnect (C18 judges the reconnect)
}

// addressing builds a request for endpoint ep according to the variant.
func (w *cluster3) buildReq(entry int, ep string, variant int) *httpReq {
	rq := &httpReq{Entry: entry, Method: "GET", Path: "/x", Header: http.Header{}, ID: w.newID()}
	switch variant % 5 {
	case 0:
		rq.Header.Set("x-piko-endpoint", ep)
	case 1:
		rq.HostHdr = ep + ".piko.example.com"
	case 2: // both, conflicting: the header wins
		other := httpEndpoints[(variant/5)%len(httpEndpoints)]
		rq.HostHdr = other + ".piko.example.com:8000"
		rq.Header.Set("x-piko-endpoint", ep)
	case 3:
		rq.HostHdr = ep + ".example"
	case 4:
		rq.Header.Set("X-Piko-Endpoint", ep)
		rq.HostHdr = "10.0.0.1:8000"
	}
	rq.Endpoint = endpointOf(rq.HostHdr, rq.Header.Get("x-piko-endpoint"))
	// what a client may legally put in a request must not defeat the one-hop rule
	switch (variant / 11) % 9 {
	case 1:
		rq.Header.Set("x-piko-forward", "false")
	case 2:
		rq.Header.Set("x-piko-forward", "0")
	case 3:
		rq.Header.Set("Connection", "x-piko-forward")
	case 4:
		rq.Header.Set("Connection", "close, X-Piko-Forward")
	}
	return rq
}

func (w *cluster3) opHTTP(a, b, c int, strict bool) {
	live := w.liveNodes()
	if len(live) == 0 {
		return
	}
	entry := live[a%len(live)]
	ep := httpEndpoints[b%len(httpEndpoints)]
	rq := w.buildReq(entry.idx, ep, c)
	w.requests++
	localBefore := entry.srv.ClusterState().LocalNode().Endpoints[rq.Endpoint] > 0
	do := func() {
		res := w.do(rq)
		w.judge(rq, res, localBefore, entry)
	}
	if c%7 == 0 && !strict {
		w.wg.Add(1)
		go func() { defer w.wg.Done(); do() }()
		return
	}
	do()
}

func (w *cluster3) judge(rq *httpReq, res *httpResult, localBefore bool, entry *node) {
	run := w.run
	if res.Err != nil {
		run.Logf("%s n%d %q -> error %v", rq.ID, rq.Entry, rq.Endpoint, res.Err)
		if entry.alive && !strings.Contains(res.Err.Error(), "reset") && !strings.Contains(res.Err.Error(), "refused") {
			run.Probe("http_client_error")
		}
		return
	}
	run.Logf("%s n%d %q -> %d stamp=%s/%s", rq.ID, rq.Entry, rq.Endpoint, res.Status, res.Header.Get("X-Stamp-Endpoint"), res.Header.Get("X-Stamp-App"))
	w.judgeRouting(rq, res)
	switch {
	case res.Status == 200:
		if res.Header.Get("X-Stamp-Endpoint") == "" {
			run.Fail("C08.map", "fabricated-success", "request %s got 200 without reaching any upstream application", rq.ID)
		}
		run.Probe("http_200")
	case res.Status == 502 || res.Status == 504:
		run.Probe(fmt.Sprintf("http_%d", res.Status))
	case res.Status == 400:
		if rq.Endpoint != "" {
			run.Fail("C08.map", "400-with-endpoint", "request %s names endpoint %q but got 400", rq.ID, rq.Endpoint)
		}
	default:
		run.Fail("C08.map", "unexpected-status", "request %s got status %d", rq.ID, res.Status)
	}
	// C06: hops from the passive sniffer
	n, path := w.hops(rq.ID)
	if n > 2 {
		run.Fail("C06.hops", "more-than-one-forward", "request %s crossed %d proxy ports: %v", rq.ID, n, path)
	}
	if n == 2 {
		run.Probe("c06.forwarded_once")
	}
	if localBefore && entry.alive && entry.srv.ClusterState().LocalNode().Endpoints[rq.Endpoint] > 0 && w.async == 0 && w.quietFor(rq.Endpoint, entry) {
		if n != 1 {
			run.Fail("C06.local", "forwarded-despite-local-upstream", "request %s entered %s which holds an upstream for %q, but crossed %d proxy ports: %v", rq.ID, entry.id, rq.Endpoint, n, path)
		}
	}
}

// hopGuard is called by the network for every stream connection when its
// request head is written: a request that keeps crossing proxy ports (a
// forwarding loop) is judged at once and the loop is cut, instead of letting
// it amplify (possibly without any virtual time passing) until the run's limit.
type hopGuard struct {
	w                  *cluster3
	mu                 sync.Mutex
	counts             map[string]int
	tcpNode, tcpClient int
}

func (g *hopGuard) onFirstWrite(c *simnet.ConnInfo) {
	if !strings.HasSuffix(c.Dst, ":8000") {
		return
	}
	g.mu.Lock()
	defer g.mu.Unlock()
	w := g.w
	if bytes.HasPrefix(c.Head, []byte("GET /_piko/v1/tcp/")) {
		// tunnelled TCP carries no request id: every dial of a client may be
		// forwarded at most once, so node-originated tunnel requests can never
		// outnumber client-originated ones
		if strings.HasPrefix(c.SrcHost, "10.0.0.") {
			g.tcpNode++
		} else {
			g.tcpClient++
		}
		if g.tcpNode > g.tcpClient {
			w.run.Fail("C06.hops", "tcp-forwarded-more-than-once", "%d tunnelled TCP requests were sent by nodes for only %d sent by clients (last %s->%s)", g.tcpNode, g.tcpClient, c.SrcHost, c.Dst)
			w.nw.RefusePort(8000)
			g.tcpClient = 1 << 30
		}
		return
	}
	i := bytes.Index(c.Head, []byte("X-Verif-Id: "))
	if i < 0 {
		return
	}
	rest := c.Head[i+12:]
	if j := bytes.IndexByte(rest, '\r'); j > 0 {
		id := string(rest[:j])
		g.counts[id]++
		if g.counts[id] == 4 {
			w.run.Fail("C06.hops", "more-than-one-forward", "request %s keeps crossing proxy ports (%d so far, last %s->%s)", id, g.counts[id], c.SrcHost, c.Dst)
			w.nw.RefusePort(8000)
		}
	}
}

// quietFor: no application of the endpoint attached to the entry node is in a
// transitional state (go-away announced but not closed).
func (w *cluster3) quietFor(ep string, entry *node) bool {
	// "holds a local upstream throughout the request" can only be asserted when no
	// upstream connection is being made, dropped or re-established around it
	if time.Since(w.lastChurn) < 5*time.Second {
		return false
	}
	for _, a := range w.apps {
		if a.endpoint == ep && a.goneAway && !a.closed {
			return false
		}
	}
	return true
}

// opForwardedProbe: a request that already carries the forward marker must be
// served locally or refused, never forwarded.
func (w *cluster3) opForwardedProbe(a, b int) {
	live := w.liveNodes()
	if len(live) == 0 {
		return
	}
	entry := live[a%len(live)]
	ep := httpEndpoints[b%len(httpEndpoints)]
	rq := w.buildReq(entry.idx, ep, 0)
	rq.Header.Set("x-piko-forward", "true")
	w.requests++
	local := entry.srv.ClusterState().LocalNode().Endpoints[ep] > 0
	res := w.do(rq)
	if res.Err != nil {
		return
	}
	w.judgeRouting(rq, res)
	n, path := w.hops(rq.ID)
	w.run.Logf("%s forwarded-probe n%d %q -> %d hops=%d", rq.ID, entry.idx, ep, res.Status, n)
	if n != 1 {
		w.run.Fail("C06.second-hop", "forwarded-request-forwarded-again", "request %s arrived at %s already marked as forwarded and crossed %d proxy ports: %v", rq.ID, entry.id, n, path)
	}
	if !local && res.Status != 502 && w.quietFor(ep, entry) {
		w.run.Fail("C06.second-hop", "forwarded-request-not-refused", "request %s arrived at %s marked as forwarded, %s has no local upstream for %q, status %d", rq.ID, entry.id, entry.id, ep, res.Status)
	}
	w.run.Probe("c06.forwarded_probe")
}

// checkRegisteredWhileConnected (C16.while): a little after a connection was
// made or ended, what the serving nodes advertise equals the upstream
// applications that are connected. An application that announced go-away but
// has not closed yet may or may not still be counted.
func (w *cluster3) checkRegisteredWhileConnected() { w.checkRegisteredWithin(12) }

func (w *cluster3) checkRegisteredWithin(halfSeconds int) {
	if w.nw.Config().PktDrop > 0 {
		return
	}
	var why string
	for i := 0; i < halfSeconds; i++ {
		time.Sleep(500 * time.Millisecond)
		w.quiesce()
		adv := map[string]int{}
		for _, n := range w.liveNodes() {
			for ep, c := range n.srv.ClusterState().LocalNode().Endpoints {
				adv[ep] += c
			}
		}
		lo, hi := map[string]int{}, map[string]int{}
		for _, a := range w.apps {
			if a.closed || !w.appTargetServing(a) {
				continue
			}
			hi[a.endpoint]++
			if !a.goneAway {
				lo[a.endpoint]++
			}
		}
		why = ""
		for _, ep := range append(append([]string{}, httpEndpoints...), tcpEndpoints...) {
			if adv[ep] < lo[ep] || adv[ep] > hi[ep] {
				why = fmt.Sprintf("endpoint %q: %d advertised, %d..%d upstream applications connected", ep, adv[ep], lo[ep], hi[ep])
			}
		}
		if why == "" {
			w.run.Probe("c16.while_checked")
			return
		}
	}
	w.run.Fail("C16.while", "registered-differs-from-connected", "%ds after the last connect/disconnect: %s", halfSeconds/2, why)
}

// appTargetServing: the node the application dials is serving (applications
// pinned to a stopped node cannot be connected).
func (w *cluster3) appTargetServing(a *app) bool {
	if a.node < 0 {
		return len(w.liveNodes()) > 0
	}
	return w.nodes[a.node].alive
}

// finalDrain (C16.drain): once every upstream has gone, nodes advertise nothing
// and hold no registration.
func (w *cluster3) finalDrain() {
	w.nw.HealAll()
	for _, a := range w.apps {
		a.shutdown()
	}
	time.Sleep(3 * time.Second)
	w.quiesce()
	for _, n := range w.liveNodes() {
		if own := n.srv.ClusterState().LocalNode().Endpoints; len(own) != 0 {
			w.run.Fail("C16.drain", "advertising-after-all-upstreams-gone", "every upstream application has disconnected but %s still advertises [%s]", n.id, epString(own))
		}
		var reg map[string]int
		if err := w.adminJSON(n, "/status/upstream/endpoints", &reg); err == nil && len(reg) != 0 {
			w.run.Fail("C16.drain", "registered-after-all-upstreams-gone", "every upstream application has disconnected but %s still holds registrations [%s]", n.id, epString(reg))
		}
	}
	w.run.Probe("c16.drain_checked")
}

// opTCP dials a TCP endpoint through the real client.Dialer and echoes a payload.
func (w *cluster3) opTCP(a, b, c int, strict bool) (ok bool, stamp string, err error) {
	live := w.liveNodes()
	if len(live) == 0 {
		return
	}
	entry := live[a%len(live)]
	ep := tcpEndpoints[b%len(tcpEndpoints)]
	w.requests++
	d := &client.Dialer{URL: &url.URL{Scheme: "http", Host: entry.host + ":8000"}}
	ctx, cancel := context.WithTimeout(context.Background(), 40*time.Second)
	defer cancel()
	conn, err := d.Dial(ctx, ep)
	if err != nil {
		w.run.Logf("tcp n%d %q -> dial error %v", entry.idx, ep, err)
		w.run.Probe("tcp_refused")
		return false, "", err
	}
	defer conn.Close()
	_ = conn.SetDeadline(time.Now().Add(40 * time.Second))
	br := bufio.NewReader(conn)
	line, err := br.ReadString('\n')
	if err != nil {
		w.run.Logf("tcp n%d %q -> no stamp: %v", entry.idx, ep, err)
		return false, "", err
	}
	f := strings.Fields(line)
	if len(f) == 3 && f[0] == "STAMP" {
		stamp = f[1]
		if stamp != ep {
			w.run.Fail("C01.misroute", "tcp-delivered-to-other-endpoint", "TCP connection for endpoint %q via %s reached an upstream of %q", ep, entry.id, stamp)
		}
	}
	payload := bytes.Repeat([]byte{byte(c)}, 1+c%4000)
	if _, err := conn.Write(payload); err != nil {
		return false, stamp, err
	}
	got := make([]byte, len(payload))
	if _, err := io.ReadFull(br, got); err != nil {
		w.run.Logf("tcp n%d %q -> echo error %v", entry.idx, ep, err)
		return false, stamp, err
	}
	if !bytes.Equal(got, payload) {
		w.run.Fail("C07.stream", "echo-mismatch", "TCP echo through %s for %q returned different bytes", entry.id, ep)
	}
	w.run.Logf("tcp n%d %q -> ok stamp=%s", entry.idx, ep, stamp)
	w.run.Probe("tcp_ok")
	return true, stamp, nil
}

// finalSettled: churn and faults stop; once routing information has settled,
// every serving node serves E iff some serving node has an upstream for E.
func (w *cluster3) finalSettled() {
	run := w.run
	w.nw.HealAll()
	cfg := w.nw.Config()
	cfg.PktDrop, cfg.PktDup = 0, 0
	// go-aways still pending finish first
	time.Sleep(35 * w.intv)
	w.wg.Wait()
	ok, why := w.waitSettled(300, false)
	if !ok {
		run.Probe("unsettled")
		run.Logf("not settled within 300 intervals: %s", why)
		if w.prop == "C01" || w.prop == "C05" {
			w.attributeUnsettled(why)
		}
		return
	}
	run.Probe("settled")
	w.checkRegistryAgainstAdmin()
	live := w.liveNodes()
	for _, entry := range live {
		for _, ep := range httpEndpoints {
			served := false
			for _, x := range live {
				if x.srv.ClusterState().LocalNode().Endpoints[ep] > 0 {
					served = true
				}
			}
			for _, variant := range []int{0, 1} {
				rq := w.buildReq(entry.idx, ep, variant)
				w.requests++
				res := w.do(rq)
				if res.Err != nil {
					run.Fail("C01.settled-serve", "settled-request-error", "settled: request for %q via %s failed: %v", ep, entry.id, res.Err)
					continue
				}
				w.judgeRouting(rq, res)
				switch {
				case served && res.Status != 200:
					run.Fail("C01.settled-serve", "settled-not-served", "settled: some serving node has an upstream for %q but the request via %s got %d", ep, entry.id, res.Status)
				case !served && res.Status != 502:
					run.Fail("C01.settled-502", "settled-not-502", "settled: no serving node has an upstream for %q but the request via %s got %d", ep, entry.id, res.Status)
				}
				if n, path := w.hops(rq.ID); n > 2 {
					run.Fail("C06.hops", "more-than-one-forward", "request %s crossed %d proxy ports: %v", rq.ID, n, path)
				}
			}
		}
		for bi, ep := range tcpEndpoints {
			served := false
			for _, x := range live {
				if x.srv.ClusterState().LocalNode().Endpoints[ep] > 0 {
					served = true
				}
			}
			ok, _, err := w.opTCPOn(entry, bi)
			if served && !ok {
				run.Fail("C01.settled-serve", "settled-tcp-not-served", "settled: some serving node has an upstream for %q but the TCP connection via %s failed: %v", ep, entry.id, err)
			}
			if !served && ok {
				run.Fail("C01.settled-502", "settled-tcp-served", "settled: no serving node has an upstream for %q but a TCP connection via %s succeeded", ep, entry.id)
			}
		}
	}
}

func (w *cluster3) opTCPOn(entry *node, epIdx int) (bool, string, error) {
	live := w.liveNodes()
	for i, n := range live {
		if n == entry {
			return w.opTCP(i, epIdx, 77, true)
		}
	}
	return false, "", fmt.Errorf("entry not serving")
}

// checkRegistryAgainstAdmin: C05 end to end - what a node advertises locally
// equals what its registry reports through the admin status API.
func (w *cluster3) checkRegistryAgainstAdmin() {
	for _, n := range w.liveNodes() {
		var reg map[string]int
		if err := w.adminJSON(n, "/status/upstream/endpoints", &reg); err != nil {
			w.run.Logf("admin status of %s: %v", n.id, err)
			continue
		}
		own := n.srv.ClusterState().LocalNode().Endpoints
		if epString(reg) != epString(own) {
			w.run.Fail("C05.equal", "admin-registry-vs-advertised", "%s advertises [%s], its registry (admin status API) holds [%s]", n.id, epString(own), epString(reg))
		}
		w.run.Probe("c05.admin_checked")
	}
}

// attributeUnsettled: a cluster that cannot settle is C03/C04/C11's business
// unless the reason is the recorded re-learning of a dead node (F2).
func (w *cluster3) attributeUnsettled(why string) {
	for _, o := range w.liveNodes() {
		for id, n := range w.tableOf(o) {
			for _, x := range w.nodes {
				if x.id == id && x.killed && n.Status == cluster.NodeStatusActive {
					w.run.Probe("unsettled_dead_node_relearnt")
				}
			}
		}
	}
}

func init() {
	for _, p := range []string{"C01", "C06"} {
		simkit.Register(&simkit.Prop{ID: p, Gen: genCluster(p), Exec: execCluster(p), MaxWall: 120 * time.Second})
	}
	_ = synctest.Wait
}
