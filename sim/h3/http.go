package h3

import (
	"bytes"
	"fmt"
	"net/http"
	"sort"
	"strings"
	"time"

	"github.com/andydunstall/piko/verifsim/simkit"
	"github.com/andydunstall/piko/verifsim/simnet"
	"github.com/gorilla/websocket"
)

// C08: HTTP transparency and the 400/502/504 mapping, locally and through a
// second node, with generated requests, generated upstream answers and every
// failure point of the upstream.

func genHTTP(rng *simkit.Rand, tier string, idx int) *simkit.Case {
	c := &simkit.Case{Family: "h3.http", Cfg: map[string]int64{}}
	c.Cfg["nodes"] = int64(rng.Range(1, 2))
	c.Cfg["interval_ms"] = 50
	c.Cfg["timeout_ms"] = int64([]int{1000, 3000, 30000}[rng.Intn(3)])
	// write timeout: the default (10s) or one that leaves room for the proxy timeout
	if rng.Intn(2) == 0 {
		c.Cfg["write_timeout_ms"] = 10000
	} else {
		c.Cfg["write_timeout_ms"] = c.Cfg["timeout_ms"] + 10000
	}
	c.Cfg["yield_den"] = []int64{0, 64, 8}[rng.Intn(3)]
	c.Cfg["stall_den"] = []int64{0, 0, 200}[rng.Intn(3)] // execution-time fault in a third of the runs
	c.Cfg["stall_max_us"] = 500
	c.Cfg["stream_delay_us"] = []int64{0, 200, 2000}[rng.Intn(3)]
	c.Cfg["segment"] = []int64{0, 300, 800}[rng.Intn(3)]
	c.Cfg["apps"] = int64(rng.Range(1, 3))
	c.Cfg["agent"] = int64(rng.Intn(3) / 2) // one run in three: the upstream is piko's agent reverse proxy in front of a plain HTTP service
	n := rng.Range(4, 24)
	for i := 0; i < n; i++ {
		k := "req"
		if rng.Intn(8) == 0 {
			k = "ws"
		} else if rng.Intn(10) == 0 {
			// the service is redeployed: every application of the endpoint disconnects and
			// connects again, to the same or to another node, between two requests
			k = "move"
		}
		c.Script = append(c.Script, simkit.Op{K: k, A: rng.Intn(1 << 30), B: rng.Intn(1 << 16), C: rng.Intn(1 << 16)})
	}
	return c
}

var (
	methods  = []string{"GET", "GET", "POST", "PUT", "DELETE", "PATCH", "HEAD", "OPTIONS"}
	segments = []string{"a", "b.c", "a%2Fb", "sp%20ace", "%C3%A9", "semi;colon", "x=y", "~tilde", "%3Fq", "caf%C3%A9", "plus+sign", "at@sign", "%2e%2e", "UPPER"}
	queries  = []string{"", "a=b", "x=%20&x=2", "q=a+b", "k", "a=b&a=c&%C3%A9=1", "redirect=http%3A%2F%2Fe.com%2F%3Fx%3D1"}
	statuses = []int{200, 200, 201, 202, 204, 301, 304, 400, 401, 404, 418, 500, 502, 503}
)

type c08Plan struct {
	req      *httpReq
	spec     *respSpec
	behave   string // ok | slow | tooslow | abort | noupstream | noendpoint
	entry    int
	home     int // the node the applications are connected to
	bodyKind int
}

func (w *cluster3) planHTTP(op simkit.Op, timeout time.Duration) *c08Plan {
	r := simkit.NewRand(uint64(op.A)<<20 ^ uint64(op.B)<<8 ^ uint64(op.C))
	p := &c08Plan{}
	live := w.liveNodes()
	p.entry = live[r.Intn(len(live))].idx
	// path
	var sb strings.Builder
	for i, n := 0, r.Range(1, 4); i < n; i++ {
		sb.WriteString("/" + segments[r.Intn(len(segments))])
	}
	if r.Intn(5) == 0 {
		sb.WriteString("/")
	}
	path := sb.String()
	if q := queries[r.Intn(len(queries))]; q != "" {
		path += "?" + q
	}
	rq := &httpReq{Entry: p.entry, Method: methods[r.Intn(len(methods))], Path: path, Header: http.Header{}, ID: w.newID()}
	ep := "e1"
	p.behave = []string{"ok", "ok", "ok", "ok", "slow", "tooslow", "abort", "noupstream", "noendpoint"}[r.Intn(9)]
	if p.behave == "noupstream" {
		ep = "ghost"
	}
	switch r.Intn(3) {
	case 0:
		rq.Header.Set("x-piko-endpoint", ep)
		rq.HostHdr = []string{"example.com", "example.com:8000", "Mixed.Case.Example", "10.0.0.1:8000"}[r.Intn(4)]
	case 1:
		rq.HostHdr = ep + ".piko.example.com"
	default:
		rq.HostHdr = ep + ".piko.example.com:8000"
	}
	if p.behave == "noendpoint" {
		rq.Header.Del("x-piko-endpoint")
		rq.HostHdr = []string{"localhost", "10.0.0.1:8000", "nodots"}[r.Intn(3)]
	}
	rq.Endpoint = endpointOf(rq.HostHdr, rq.Header.Get("x-piko-endpoint"))
	// end-to-end headers
	for i, n := 0, r.Intn(5); i < n; i++ {
		switch r.Intn(8) {
		case 0:
			rq.Header.Add("X-Custom", fmt.Sprintf("v%d", r.Intn(100)))
			rq.Header.Add("X-Custom", fmt.Sprintf("w%d", r.Intn(100)))
		case 1:
			rq.Header["x-lower-case"] = []string{"kept as sent?"}
		case 2:
			rq.Header.Set("Accept", "text/html, */*;q=0.1")
		case 3:
			rq.Header.Set("Cookie", "a=1; b=2")
		case 4:
			rq.Header.Set("Authorization", "Basic dXNlcjpwYXNz")
		case 5:
			rq.Header.Set("X-Forwarded-For", "203.0.113.7")
		case 6:
			rq.Header.Set("User-Agent", "verif/1.0 (sim)")
		case 7:
			// a non-WebSocket Upgrade offer (what "curl --http2" sends in clear text);
			// hop-by-hop, so the upstream does not see it, and not exempt from the timeout
			rq.Header.Set("Upgrade", []string{"h2c", "TLS/1.0"}[r.Intn(2)])
		}
	}
	if rq.Method == "POST" || rq.Method == "PUT" || rq.Method == "PATCH" || (rq.Method == "DELETE" && r.Intn(3) == 0) {
		size := []int{0, 1, 100, 4096, 70000, 262144}[r.Intn(6)]
		if p.behave == "noendpoint" || p.behave == "noupstream" || p.behave == "abort" {
			// piko answers without consuming the body; a client still writing a large
			// body into a connection the server has closed gets a write error from
			// the network, which says nothing about piko
			size = []int{0, 1, 100}[r.Intn(3)]
		}
		rq.Body = patterned(size, byte(r.Intn(250)))
		rq.Header.Set("Content-Type", "application/octet-stream")
	}
	p.req = rq
	// upstream answer
	sp := &respSpec{Status: statuses[r.Intn(len(statuses))], Header: http.Header{}}
	if sp.Status != 204 && sp.Status != 304 {
		sp.Body = patterned([]int{0, 2, 300, 5000, 100000, 262144}[r.Intn(6)], byte(r.Intn(250)))
	}
	for i, n := 0, r.Intn(4); i < n; i++ {
		switch r.Intn(5) {
		case 0:
			sp.Header.Add("Set-Cookie", "s=1; Path=/")
			sp.Header.Add("Set-Cookie", "t=2; HttpOnly")
		case 1:
			sp.Header.Set("Location", "http://elsewhere.example/x?y=1")
		case 2:
			sp.Header.Set("X-Upstream", "yes")
		case 3:
			if sp.Status != 304 { // the application's own HTTP server drops entity headers of a 304
				sp.Header.Set("Content-Type", "application/json")
			}
		case 4:
			sp.Header.Set("Cache-Control", "no-store")
		}
	}
	switch p.behave {
	case "slow":
		sp.Delay = timeout / 2
	case "tooslow":
		sp.Delay = timeout + timeout/2 + time.Second
	case "abort":
		sp.Abort = true
	}
	p.spec = sp
	return p
}

func patterned(n int, seed byte) []byte {
	b := make([]byte, n)
	for i := range b {
		b[i] = seed + byte(i*7)
	}
	return b
}

var reqAllowExtra = map[string]bool{"X-Forwarded-For": true, "X-Piko-Forward": true, "Accept-Encoding": true, "X-Verif-Id": true,
	"Content-Length": true, "Transfer-Encoding": true, "User-Agent": true, "Connection": true}
var respAllowExtra = map[string]bool{"Date": true, "Content-Length": true, "Content-Type": true, "X-Stamp-Endpoint": true, "X-Stamp-App": true,
	"Transfer-Encoding": true, "X-Content-Type-Options": true}

func execHTTP(run *simkit.Run) {
	c := run.Case
	w := &cluster3{world: newWorld(run, netCfg(c)), prop: "C08"}
	defer w.teardown()
	timeout := time.Duration(c.Int("timeout_ms")) * time.Millisecond
	writeTO := time.Duration(c.Int("write_timeout_ms")) * time.Millisecond
	for i := 0; i < c.Int("nodes"); i++ {
		w.startNode(nodeOpts{interval: 50 * time.Millisecond, proxyTimeout: timeout, writeTimeout: writeTO})
		if run.Stop() {
			return
		}
	}
	kind := "http"
	if c.On("agent") {
		kind = "agent"
	}
	home := 0
	for i := 0; i < c.Int("apps"); i++ {
		if _, err := w.listen("e1", kind, home, ""); err != nil {
			run.Fail("SIM.setup", "listen", "%v", err)
			return
		}
	}
	if ok, why := w.waitSettled(200, true); !ok {
		run.Fail("SIM.setup", "not-settled", "%s", why)
		return
	}
	for i, op := range c.Script {
		if run.Stop() {
			break
		}
		run.Step = i
		run.Steps++
		if op.K == "ws" {
			w.wsUpgrade(op, timeout)
			continue
		}
		if op.K == "move" {
			// requests before and after the move must each reach an application that is
			// connected at that moment: nothing learnt for an earlier request (a selected
			// upstream, a connection to it or to the node that had it) may serve a later one
			for _, a := range w.liveApps("e1") {
				a.shutdown()
			}
			home = op.A % len(w.nodes)
			moved := true
			for i := 0; i < c.Int("apps"); i++ {
				if _, err := w.listen("e1", kind, home, ""); err != nil {
					run.Logf("move: listen on n%d failed: %v", home, err)
					moved = false
					break
				}
			}
			if ok, why := w.waitSettled(200, true); !moved || !ok {
				// routing after a move is C01/C04/C16 business; C08 says nothing about it
				run.Logf("move: not settled (%s): the rest of the script is skipped", why)
				run.Probe("c08.move_not_settled")
				break
			}
			run.Probe("c08.upstreams_moved")
			continue
		}
		p := w.planHTTP(op, timeout)
		p.home = home
		w.mu.Lock()
		w.specs[p.req.ID] = p.spec
		w.mu.Unlock()
		w.requests++
		res := w.do(p.req)
		w.judgeHTTP(p, res, timeout, writeTO)
	}
	run.Probe("nontrivial")
	if c.On("agent") {
		run.Probe("c08.via_agent_reverse_proxy")
	}
	run.Summary = fmt.Sprintf("http nodes=%d timeout=%v write_timeout=%v apps=%d agent=%v requests=%d", len(w.nodes), timeout, writeTO, c.Int("apps"), c.On("agent"), w.requests)
}

func (w *cluster3) judgeHTTP(p *c08Plan, res *httpResult, timeout, writeTO time.Duration) {
	run := w.run
	rq := p.req
	forwarded := p.entry != p.home
	tag := fmt.Sprintf("%s %s %s via n%d (%s, forwarded=%v)", rq.ID, rq.Method, rq.Path, p.entry, p.behave, forwarded)
	run.Logf("%s -> status=%d err=%v elapsed=%v", tag, res.Status, res.Err, res.Elapsed)
	run.Probe("c08." + p.behave)
	if forwarded {
		run.Probe("c08.forwarded_path")
	}
	// how long piko needs before it can answer
	var latency time.Duration
	switch p.behave {
	case "slow":
		latency = p.spec.Delay
	case "tooslow":
		latency = timeout
	}
	if res.Err != nil {
		if latency > writeTO {
			// the answer (or piko's own 504) comes later than the HTTP server's
			// write timeout: it cannot be written any more (finding F3)
			run.Fail("C08.map", "response-later-than-http-write-timeout", "%s: the answer was due after %v but the proxy's http write timeout is %v; the client got: %v", tag, latency, writeTO, res.Err)
			return
		}
		if strings.Contains(res.Err.Error(), "Client.Timeout") {
			run.Fail("C08.no-hang", "request-hung", "%s: no answer within the client's 100s", tag)
			return
		}
		run.Fail("C08.map", "no-http-answer", "%s: the client got no HTTP answer: %v", tag, res.Err)
		return
	}
	if res.Elapsed > timeout+5*time.Second {
		run.Fail("C08.no-hang", "answer-too-late", "%s: answered after %v with a %v proxy timeout", tag, res.Elapsed, timeout)
	}
	w.judgeRouting(rq, res)
	w.mu.Lock()
	recs := append([]recorded(nil), w.reqs[rq.ID]...)
	w.mu.Unlock()
	switch p.behave {
	case "noendpoint":
		if res.Status != 400 {
			run.Fail("C08.map", "no-endpoint-not-400", "%s: no endpoint can be determined but the status is %d", tag, res.Status)
		}
		if len(recs) > 0 {
			run.Fail("C08.map", "no-endpoint-but-delivered", "%s: reached an upstream", tag)
		}
		return
	case "noupstream":
		if res.Status != 502 {
			run.Fail("C08.map", "no-upstream-not-502", "%s: no upstream is available but the status is %d", tag, res.Status)
		}
		return
	case "abort":
		if res.Status != 502 {
			run.Fail("C08.map", "upstream-closed-not-502", "%s: the upstream closed the connection without answering but the status is %d", tag, res.Status)
		}
		return
	case "tooslow":
		if res.Status != 504 {
			run.Fail("C08.map", "timeout-not-504", "%s: the upstream did not answer within %v but the status is %d", tag, timeout, res.Status)
		} else if res.Elapsed < timeout || res.Elapsed > timeout+time.Second {
			run.Fail("C08.map", "504-at-wrong-time", "%s: 504 after %v, configured timeout %v", tag, res.Elapsed, timeout)
		}
		return
	}
	// ok / slow: transparent both ways
	if len(recs) != 1 {
		run.Fail("C08.request", "delivered-count", "%s: delivered to upstream applications %d times", tag, len(recs))
		return
	}
	rec := recs[0]
	sentURI := rq.Path
	if rec.Method != rq.Method {
		run.Fail("C08.request", "method-changed", "%s: upstream saw method %s", tag, rec.Method)
	}
	if rec.URI != sentURI {
		run.Fail("C08.request", "uri-changed", "%s: upstream saw request URI %q", tag, rec.URI)
	}
	if rec.Host != rq.HostHdr {
		run.Fail("C08.request", "host-changed", "%s: sent Host %q, upstream saw %q", tag, rq.HostHdr, rec.Host)
	}
	if !bytes.Equal(rec.Body, rq.Body) {
		run.Fail("C08.request", "body-changed", "%s: sent %d body bytes (%s), upstream read %d (%s)", tag, len(rq.Body), sha(rq.Body), len(rec.Body), sha(rec.Body))
	}
	sent := http.Header{}
	for k, vs := range rq.Header {
		sent[http.CanonicalHeaderKey(k)] = append(sent[http.CanonicalHeaderKey(k)], vs...)
	}
	for k, vs := range sent {
		got := rec.Header[k]
		if k == "Upgrade" {
			continue // hop-by-hop
		}
		if k == "X-Forwarded-For" {
			// the proxy appends the client address(es)
			if len(got) == 0 || !strings.HasPrefix(strings.Join(got, ", "), vs[0]) {
				run.Fail("C08.request", "header-changed", "%s: sent %s=%q, upstream saw %q", tag, k, vs, got)
			}
			continue
		}
		if strings.Join(got, "\x00") != strings.Join(vs, "\x00") {
			run.Fail("C08.request", "header-changed", "%s: sent %s=%q, upstream saw %q", tag, k, vs, got)
		}
	}
	for k, vs := range rec.Header {
		if _, ok := sent[k]; !ok && !reqAllowExtra[k] {
			run.Fail("C08.request", "header-added", "%s: upstream saw header %s=%q that was not sent", tag, k, vs)
		}
	}
	if ua := rec.Header.Get("User-Agent"); sent.Get("User-Agent") == "" && ua != "" && ua != "Go-http-client/1.1" {
		run.Fail("C08.request", "header-added", "%s: upstream saw User-Agent %q", tag, ua)
	}
	// response
	sp := p.spec
	if res.Status != sp.Status {
		run.Fail("C08.response", "status-changed", "%s: upstream answered %d, client got %d", tag, sp.Status, res.Status)
	}
	wantBody := sp.Body
	if rq.Method == "HEAD" || sp.Status == 204 || sp.Status == 304 {
		wantBody = nil
	}
	if !bytes.Equal(res.Body, wantBody) {
		run.Fail("C08.response", "body-changed", "%s: upstream sent %d body bytes (%s), client read %d (%s)", tag, len(wantBody), sha(wantBody), len(res.Body), sha(res.Body))
	}
	for k, vs := range sp.Header {
		got := res.Header[k]
		if strings.Join(got, "\x00") != strings.Join(vs, "\x00") {
			run.Fail("C08.response", "header-changed", "%s: upstream sent %s=%q, client got %q", tag, k, vs, got)
		}
	}
	var extra []string
	for k := range res.Header {
		if _, ok := sp.Header[k]; !ok && !respAllowExtra[k] {
			extra = append(extra, k)
		}
	}
	if len(extra) > 0 {
		sort.Strings(extra)
		run.Fail("C08.response", "header-added", "%s: client got headers %v the upstream did not send", tag, extra)
	}
	run.Probe("c08.transparent_exchange_checked")
}

// wsUpgrade: a WebSocket upgrade through the HTTP route is not subject to the
// proxy timeout: the upgraded connection stays usable although nothing is sent
// for longer than the timeout.
func (w *cluster3) wsUpgrade(op simkit.Op, timeout time.Duration) {
	run := w.run
	r := simkit.NewRand(uint64(op.A) ^ uint64(op.B)<<20)
	live := w.liveNodes()
	entry := live[r.Intn(len(live))]
	hold := timeout + timeout/2 + time.Duration(r.Intn(2000))*time.Millisecond
	if hold > 40*time.Second {
		hold = 40 * time.Second // (the proxy's http write timeout does not apply to hijacked connections)
	}
	id := w.newID()
	w.mu.Lock()
	w.specs[id] = &respSpec{WS: true, Delay: hold}
	w.mu.Unlock()
	w.requests++
	d := websocket.Dialer{NetDialContext: simnet.DialContext, HandshakeTimeout: 20 * time.Second}
	hdr := http.Header{"X-Piko-Endpoint": {"e1"}, "X-Verif-Id": {id}}
	t0 := time.Now()
	c, resp, err := d.Dial(fmt.Sprintf("ws://%s:8000/ws/%s", entry.host, segments[r.Intn(len(segments))]), hdr)
	tag := fmt.Sprintf("%s websocket upgrade via %s held idle for %v (proxy timeout %v)", id, entry.id, hold, timeout)
	if err != nil {
		st := 0
		if resp != nil {
			st = resp.StatusCode
		}
		run.Fail("C08.map", "websocket-upgrade-refused", "%s: handshake failed (status %d): %v", tag, st, err)
		return
	}
	defer c.Close()
	if st := resp.Header.Get("X-Stamp-Endpoint"); st != "e1" {
		run.Fail("C01.misroute", "http-delivered-to-other-endpoint", "%s: upgraded by an upstream of %q", tag, st)
	}
	_ = c.SetReadDeadline(time.Now().Add(hold + 20*time.Second))
	_, msg, err := c.ReadMessage()
	if err != nil {
		run.Fail("C08.map", "timeout-applied-to-websocket", "%s: the connection was cut after %v: %v", tag, time.Since(t0), err)
		return
	}
	if el := time.Since(t0); el < hold {
		run.Fail("C08.map", "websocket-message-early", "%s: first message after %v", tag, el)
	}
	_ = c.WriteMessage(websocket.TextMessage, []byte("ping-"+id))
	_, msg, err = c.ReadMessage()
	if err != nil || string(msg) != "echo:ping-"+id {
		run.Fail("C08.response", "websocket-echo", "%s: echo failed: %q %v", tag, msg, err)
		return
	}
	run.Logf("%s -> ok", tag)
	run.Probe("c08.websocket_held_past_timeout")
}

func init() {
	simkit.Register(&simkit.Prop{ID: "C08", Gen: genHTTP, Exec: execHTTP, MaxWall: 120 * time.Second})
}
