// Package h3 is the whole-system harness "clustersim" (DESIGN.md section 3, H3):
// 1..5 complete server.Server nodes (NewServer/Start/Shutdown, proxy, upstream,
// admin and gossip ports, real tickers), real piko clients (client.Upstream
// listeners, client.Dialer) and stamped upstream applications, all on the
// simulated network under the seeded scheduler.
package h3

import (
	"os"
	"runtime"
	"bytes"
	"context"
	"crypto/sha256"
	"encoding/json"
	"fmt"
	"io"
	"net"
	"net/http"
	"net/url"
	"sort"
	"strings"
	"sync"
	"testing/synctest"
	"time"

	agentconfig "github.com/andydunstall/piko/agent/config"
	"github.com/andydunstall/piko/agent/reverseproxy"
	"github.com/andydunstall/piko/client"
	"github.com/andydunstall/piko/pkg/log"
	"github.com/gorilla/websocket"
	"github.com/andydunstall/piko/server"
	"github.com/andydunstall/piko/server/cluster"
	"github.com/andydunstall/piko/server/config"
	"github.com/andydunstall/piko/verifsim/simkit"
	"github.com/andydunstall/piko/verifsim/simnet"
)

type node struct {
	idx     int
	id      string
	host    string
	srv     *server.Server
	conf    *config.Config
	alive   bool // serving (not shut down, not killed)
	stopped bool // graceful shutdown completed
	killed  bool
	replaced bool // a new instance has been started at its address
}

// app is an upstream application: a real client listener plus a stamped server.
type app struct {
	id       int
	endpoint string
	kind     string // "http" | "tcp"
	target   string // host:port of the upstream port it first connected to
	node     int    // node it first connected to (-1 = through the load-balancer name)
	ln       client.Listener
	srv      *http.Server
	agent    *reverseproxy.Server
	cancel   context.CancelFunc
	closed   bool
	goneAway bool
	served   int
	w        *world
}

type recorded struct {
	App     int
	Method  string
	URI     string
	Host    string
	Header  http.Header
	Body    []byte
	Forward string
}

type respSpec struct {
	Status int
	Header http.Header
	Body   []byte
	Delay  time.Duration
	Abort  bool // close the connection without answering
	WS     bool // accept a WebSocket upgrade, stay silent for Delay, then exchange messages
}

type world struct {
	run   *simkit.Run
	nw    *simnet.Net
	nodes []*node
	apps  []*app
	tr    *http.Transport
	hc    *http.Client
	intv  time.Duration

	mu     sync.Mutex
	reqs   map[string][]recorded // X-Verif-Id -> what upstreams saw
	specs  map[string]*respSpec
	nextID int
	wg     sync.WaitGroup // asynchronous client activity
}

func host(i int) string { return fmt.Sprintf("10.0.0.%d", i+1) }

type nodeOpts struct {
	host         string
	interval     time.Duration
	proxyTimeout time.Duration
	writeTimeout time.Duration
	grace        time.Duration
	tweak        func(i int, c *config.Config)
}

func newWorld(run *simkit.Run, ncfg simnet.Config) *world {
	w := &world{run: run, reqs: map[string][]recorded{}, specs: map[string]*respSpec{}}
	w.nw = simnet.Reset(run, ncfg)
	w.nw.MarkGossipPort(8003)
	w.tr = &http.Transport{DialContext: simnet.DialContext, DisableKeepAlives: true, DisableCompression: true}
	http.DefaultTransport = w.tr
	w.hc = &http.Client{Transport: w.tr, Timeout: 100 * time.Second, CheckRedirect: func(*http.Request, []*http.Request) error { return http.ErrUseLastResponse }}
	return w
}

func (w *world) startNode(o nodeOpts) *node {
	i := len(w.nodes)
	nd := &node{idx: i, id: fmt.Sprintf("n%d", i), host: host(i)}
	if o.host != "" {
		nd.host = o.host // a new instance (new id) at the address of one that shut down
	}
	conf := config.Default()
	conf.Proxy.BindAddr = nd.host + ":8000"
	conf.Upstream.BindAddr = nd.host + ":8001"
	conf.Admin.BindAddr = nd.host + ":8002"
	conf.Cluster.Gossip.BindAddr = nd.host + ":8003"
	conf.Cluster.NodeID = nd.id
	conf.Cluster.Gossip.Interval = o.interval
	conf.Cluster.AbortIfJoinFails = false
	conf.Cluster.JoinTimeout = 5 * time.Second
	for _, p := range w.nodes {
		if p.alive {
			conf.Cluster.Join = append(conf.Cluster.Join, p.host+":8003")
		}
	}
	if o.proxyTimeout != 0 {
		conf.Proxy.Timeout = o.proxyTimeout
	}
	if o.writeTimeout != 0 {
		conf.Proxy.HTTP.WriteTimeout = o.writeTimeout
	}
	conf.GracePeriod = o.grace
	if conf.GracePeriod == 0 {
		conf.GracePeriod = 10 * time.Second
	}
	conf.Proxy.AccessLog.Disable = true
	if o.tweak != nil {
		o.tweak(i, conf)
	}
	nd.conf = conf
	w.intv = o.interval
	done := make(chan struct{})
	go func() {
		defer close(done)
		simnet.SetHost(nd.host)
		s, err := server.NewServer(conf, log.NewNopLogger())
		if err != nil {
			w.run.Fail("SIM.setup", "newserver", "%v", err)
			return
		}
		if err := s.Start(); err != nil {
			w.run.Fail("SIM.setup", "start", "%v", err)
		}
		nd.srv = s
	}()
	<-done
	nd.alive = nd.srv != nil
	w.nodes = append(w.nodes, nd)
	w.setLB()
	w.run.Logf("started %s", nd.id)
	return nd
}

// quiesce waits until nothing moves any more. With the execution-time fault
// on, a goroutine that is about to finish may be asleep for a slice of
// virtual time, which synctest.Wait alone would take for rest.
func (w *world) quiesce() {
	if w.run.Case.Cfg["stall_den"] > 0 {
		time.Sleep(300 * time.Millisecond)
	}
	synctest.Wait()
}

// setLB points the load-balancer name at the serving nodes.
func (w *world) setLB() {
	var hs []string
	for _, n := range w.nodes {
		if n.alive {
			hs = append(hs, n.host)
		}
	}
	w.nw.SetName("lb.piko", hs)
}

func (w *world) liveNodes() []*node {
	var out []*node
	for _, n := range w.nodes {
		if n.alive {
			out = append(out, n)
		}
	}
	return out
}

// ------------------------------------------------------------ upstream applications

func (a *app) ServeHTTP(rw http.ResponseWriter, r *http.Request) {
	w := a.w
	id := r.Header.Get("X-Verif-Id")
	body, _ := io.ReadAll(r.Body)
	rec := recorded{App: a.id, Method: r.Method, URI: r.RequestURI, Host: r.Host, Header: r.Header.Clone(), Body: body, Forward: r.Header.Get("x-piko-forward")}
	w.mu.Lock()
	a.served++
	w.reqs[id] = append(w.reqs[id], rec)
	spec := w.specs[id]
	w.mu.Unlock()
	if spec != nil && spec.WS && strings.EqualFold(r.Header.Get("Upgrade"), "websocket") {
		up := websocket.Upgrader{}
		c, err := up.Upgrade(rw, r, http.Header{"X-Stamp-Endpoint": {a.endpoint}})
		if err != nil {
			return
		}
		defer c.Close()
		// hold the upgraded connection idle for longer than the proxy timeout, then talk
		time.Sleep(spec.Delay)
		_ = c.WriteMessage(websocket.TextMessage, []byte("hello after "+spec.Delay.String()))
		_, msg, err := c.ReadMessage()
		if err == nil {
			_ = c.WriteMessage(websocket.TextMessage, append([]byte("echo:"), msg...))
		}
		return
	}
	rw.Header().Set("X-Stamp-Endpoint", a.endpoint)
	rw.Header().Set("X-Stamp-App", fmt.Sprint(a.id))
	if spec == nil {
		rw.Header().Set("Content-Type", "text/plain")
		fmt.Fprintf(rw, "app=%d endpoint=%s", a.id, a.endpoint)
		return
	}
	if spec.Delay > 0 {
		select {
		case <-time.After(spec.Delay):
		case <-r.Context().Done():
			// the caller went away: answer nothing (returning normally would make the
			// application's HTTP server emit an implicit 200 that races with piko's timeout)
			panic(http.ErrAbortHandler)
		}
	}
	if spec.Abort {
		if hj, ok := rw.(http.Hijacker); ok {
			if c, _, err := hj.Hijack(); err == nil {
				c.Close()
			}
		}
		return
	}
	for k, vs := range spec.Header {
		for _, v := range vs {
			rw.Header().Add(k, v)
		}
	}
	rw.WriteHeader(spec.Status)
	if r.Method != http.MethodHead {
		rw.Write(spec.Body)
	}
}

// serveTCP: stamp line, then echo until EOF.
func (a *app) serveTCP() {
	for {
		c, err := a.ln.Accept()
		if err != nil {
			return
		}
		a.w.mu.Lock()
		a.served++
		a.w.mu.Unlock()
		go func() {
			defer c.Close()
			fmt.Fprintf(c, "STAMP %s %d\n", a.endpoint, a.id)
			buf := make([]byte, 16<<10)
			for {
				n, err := c.Read(buf)
				if n > 0 {
					if _, werr := c.Write(buf[:n]); werr != nil {
						return
					}
				}
				if err != nil {
					return
				}
			}
		}()
	}
}

// listen starts an upstream application for endpoint on the given target
// (a node index, or -1 for the load-balancer name).
func (w *world) listen(endpoint, kind string, nodeIdx int, token string) (*app, error) {
	w.mu.Lock()
	w.nextID++
	a := &app{id: w.nextID, endpoint: endpoint, kind: kind, node: nodeIdx, w: w}
	w.mu.Unlock()
	a.target = "lb.piko:8001"
	if nodeIdx >= 0 {
		a.target = w.nodes[nodeIdx].host + ":8001"
	}
	ctx, cancel := context.WithCancel(context.Background())
	a.cancel = cancel
	errc := make(chan error, 1)
	go func() {
		simnet.SetHost(a.host())
		u := &client.Upstream{URL: &url.URL{Scheme: "http", Host: a.target}, Token: token,
			MinReconnectBackoff: 100 * time.Millisecond, MaxReconnectBackoff: 2 * time.Second}
		lctx, lcancel := context.WithTimeout(ctx, 5*time.Second)
		defer lcancel()
		ln, err := u.Listen(lctx, endpoint)
		if err != nil {
			errc <- err
			return
		}
		a.ln = ln
		if kind == "agent" {
			// the application is a plain HTTP service on the simulated network,
			// reached through piko's agent reverse proxy
			addr := fmt.Sprintf("10.2.0.%d:9001", a.id%250+1)
			sln, err := simnet.Listen("tcp", addr)
			if err != nil {
				errc <- err
				return
			}
			a.srv = &http.Server{Handler: a}
			go a.srv.Serve(sln)
			a.agent = reverseproxy.NewServer(agentconfig.ListenerConfig{EndpointID: endpoint, Addr: addr, Protocol: agentconfig.ListenerProtocolHTTP,
				Timeout: 5 * time.Minute, AccessLog: log.AccessLogConfig{Level: "info", Disable: true}}, reverseproxy.NewMetrics("agent"), log.NewNopLogger())
			errc <- nil
			_ = a.agent.Serve(ln)
			return
		}
		errc <- nil
		if kind == "tcp" {
			a.serveTCP()
			return
		}
		a.srv = &http.Server{Handler: a}
		_ = a.srv.Serve(ln)
	}()
	if err := <-errc; err != nil {
		cancel()
		return nil, err
	}
	w.apps = append(w.apps, a)
	w.run.Logf("app %d listening on %q via %s", a.id, endpoint, a.target)
	return a, nil
}

func (a *app) host() string { return fmt.Sprintf("10.1.0.%d", a.id%250+1) }

func (a *app) shutdown() {
	if a.closed {
		return
	}
	a.closed = true
	a.cancel()
	// close the connection to piko first: Accept only returns once the session is gone
	if a.ln != nil {
		a.ln.Shutdown()
	}
	if a.agent != nil {
		sctx, scancel := context.WithTimeout(context.Background(), time.Second)
		_ = a.agent.Shutdown(sctx)
		scancel()
		if a.srv != nil {
			a.srv.Close()
		}
		return
	}
	if a.srv != nil {
		done := make(chan struct{})
		go func() { a.srv.Close(); close(done) }()
		select {
		case <-done:
		case <-time.After(5 * time.Second):
			// the listener was shut down, yet its Accept is still blocked on a live
			// connection to the server (a reconnect raced with Shutdown)
			// Only a connection to a server that is up can keep the upstream
			// registered; a handshake still pending towards a crashed host
			// (gorilla does not watch the context while it reads the response)
			// registers nothing anywhere and is outside C16.
			if a.w.nw.CountConnsFromToUp(a.host()) > 0 {
				a.w.run.Fail("C16.while", "client-shutdown-left-connection-open", "app %d (%s): 5s after Listener.Shutdown returned its Accept is still blocked on an open connection to the server", a.id, a.endpoint)
			} else {
				a.w.run.Probe("c16.shutdown_during_handshake_to_dead_server")
			}
			if os.Getenv("VERIF_STACKS") != "" {
				buf := make([]byte, 1<<20)
				os.Stderr.Write(buf[:runtime.Stack(buf, true)])
			}
			src := a.host()
			a.w.nw.ResetConns(func(s, d string) bool { return s == src })
			<-done
		}
	}
}

func (w *world) liveApps(endpoint string) []*app {
	var out []*app
	for _, a := range w.apps {
		if !a.closed && !a.goneAway && (endpoint == "" || a.endpoint == endpoint) {
			out = append(out, a)
		}
	}
	return out
}

// ------------------------------------------------------------ requests

type httpReq struct {
	Entry    int
	Method   string
	Path     string // escaped path + query as sent
	HostHdr  string
	Header   http.Header
	Body     []byte
	Endpoint string // the endpoint the specification derives from the request ("" = none)
	ID       string
}

type httpResult struct {
	Err     error
	Status  int
	Header  http.Header
	Body    []byte
	Elapsed time.Duration
}

func (w *world) newID() string {
	w.mu.Lock()
	defer w.mu.Unlock()
	w.nextID++
	return fmt.Sprintf("r%d", w.nextID)
}

// endpointOf: the specification of addressing (header first, else the first
// Host label when the host has a separator and is not an IP).
func endpointOf(hostHdr, pikoEndpoint string) string {
	if pikoEndpoint != "" {
		return pikoEndpoint
	}
	h := hostHdr
	if hh, _, err := net.SplitHostPort(hostHdr); err == nil {
		h = hh
	}
	if h == "" || net.ParseIP(h) != nil || !strings.Contains(h, ".") {
		return ""
	}
	return strings.Split(h, ".")[0]
}

func (w *world) do(rq *httpReq) *httpResult {
	target := fmt.Sprintf("http://%s:8000%s", w.nodes[rq.Entry].host, rq.Path)
	r, err := http.NewRequest(rq.Method, target, bytes.NewReader(rq.Body))
	if err != nil {
		return &httpResult{Err: err}
	}
	for k, vs := range rq.Header {
		r.Header[k] = append([]string(nil), vs...)
	}
	if rq.HostHdr != "" {
		r.Host = rq.HostHdr
	}
	r.Header.Set("X-Verif-Id", rq.ID)
	if len(rq.Body) == 0 {
		r.Body = nil
		r.ContentLength = 0
	}
	t0 := time.Now()
	resp, err := w.hc.Do(r)
	if err != nil {
		return &httpResult{Err: err, Elapsed: time.Since(t0)}
	}
	b, rerr := io.ReadAll(resp.Body)
	resp.Body.Close()
	res := &httpResult{Status: resp.StatusCode, Header: resp.Header, Body: b, Elapsed: time.Since(t0)}
	if rerr != nil {
		res.Err = rerr
	}
	return res
}

// judgeRouting applies C01.misroute to a response.
func (w *world) judgeRouting(rq *httpReq, res *httpResult) {
	if res.Err != nil {
		return
	}
	if st := res.Header.Get("X-Stamp-Endpoint"); st != "" && st != rq.Endpoint {
		w.run.Fail("C01.misroute", "http-delivered-to-other-endpoint", "request %s for endpoint %q via n%d (Host %q, x-piko-endpoint %q) was answered by an upstream of %q",
			rq.ID, rq.Endpoint, rq.Entry, rq.HostHdr, rq.Header.Get("x-piko-endpoint"), st)
	}
	w.mu.Lock()
	recs := append([]recorded(nil), w.reqs[rq.ID]...)
	w.mu.Unlock()
	for _, rec := range recs {
		for _, a := range w.apps {
			if a.id == rec.App && a.endpoint != rq.Endpoint {
				w.run.Fail("C01.misroute", "http-delivered-to-other-endpoint", "request %s for endpoint %q via n%d reached app %d of endpoint %q", rq.ID, rq.Endpoint, rq.Entry, a.id, a.endpoint)
			}
		}
	}
}

// hops counts, from the passive sniffer, the proxy-port connections that
// carried the request id.
func (w *world) hops(id string) (n int, path []string) {
	needle := []byte("X-Verif-Id: " + id + "\r\n")
	for _, c := range w.nw.Conns {
		if strings.HasSuffix(c.Dst, ":8000") && bytes.Contains(c.Head, needle) {
			n++
			path = append(path, c.SrcHost+"->"+c.Dst)
		}
	}
	return
}

// ------------------------------------------------------------ views

func (w *world) tableOf(n *node) map[string]*cluster.Node {
	out := map[string]*cluster.Node{}
	for _, x := range n.srv.ClusterState().Nodes() {
		out[x.ID] = x
	}
	return out
}

func epString(m map[string]int) string {
	ks := make([]string, 0, len(m))
	for k := range m {
		ks = append(ks, k)
	}
	sort.Strings(ks)
	var sb strings.Builder
	for _, k := range ks {
		fmt.Fprintf(&sb, "%s:%d ", k, m[k])
	}
	return strings.TrimSpace(sb.String())
}

// settled: every serving node lists every serving node exactly as that node
// lists itself, active, and lists no other node as active.
func (w *world) settled() (bool, string) {
	live := w.liveNodes()
	for _, o := range live {
		t := w.tableOf(o)
		for _, x := range live {
			own := x.srv.ClusterState().LocalNode()
			got := t[x.id]
			if got == nil {
				return false, fmt.Sprintf("%s does not list %s", o.id, x.id)
			}
			if got.Status != cluster.NodeStatusActive {
				return false, fmt.Sprintf("%s lists %s as %s", o.id, x.id, got.Status)
			}
			if epString(got.Endpoints) != epString(own.Endpoints) {
				return false, fmt.Sprintf("%s lists %s with [%s], it advertises [%s]", o.id, x.id, epString(got.Endpoints), epString(own.Endpoints))
			}
		}
		for id, n := range t {
			isLive := false
			for _, x := range live {
				if x.id == id {
					isLive = true
				}
			}
			if !isLive && n.Status == cluster.NodeStatusActive && len(n.Endpoints) > 0 {
				return false, fmt.Sprintf("%s lists departed %s as active with [%s]", o.id, id, epString(n.Endpoints))
			}
		}
	}
	return true, ""
}

// waitSettled waits up to the bound (in gossip intervals) for settled().
func (w *world) waitSettled(intervals int, strictApps bool) (bool, string) {
	why := ""
	for i := 0; i < intervals/5+1; i++ {
		w.quiesce()
		var ok bool
		if ok, why = w.settled(); ok {
			// and what nodes advertise equals what is really connected
			if !strictApps {
				return true, ""
			}
			if ok2, why2 := w.advertisedMatchesApps(); ok2 {
				return true, ""
			} else {
				why = why2
			}
		}
		time.Sleep(5 * w.intv)
	}
	return false, why
}

// advertisedMatchesApps: the total advertised per endpoint equals the number of
// live upstream applications (each is connected to exactly one serving node).
func (w *world) advertisedMatchesApps() (bool, string) {
	adv := map[string]int{}
	for _, n := range w.liveNodes() {
		for ep, c := range n.srv.ClusterState().LocalNode().Endpoints {
			adv[ep] += c
		}
	}
	truth := map[string]int{}
	for _, a := range w.liveApps("") {
		truth[a.endpoint]++
	}
	if epString(adv) != epString(truth) {
		return false, fmt.Sprintf("advertised [%s], live upstream applications [%s]", epString(adv), epString(truth))
	}
	return true, ""
}

// adminJSON fetches a JSON document from a node's admin port.
func (w *world) adminJSON(n *node, path string, out any) error {
	resp, err := w.hc.Get(fmt.Sprintf("http://%s:8002%s", n.host, path))
	if err != nil {
		return err
	}
	defer resp.Body.Close()
	if resp.StatusCode != 200 {
		return fmt.Errorf("status %d", resp.StatusCode)
	}
	return json.NewDecoder(resp.Body).Decode(out)
}

func sha(b []byte) string { h := sha256.Sum256(b); return fmt.Sprintf("%x", h[:6]) }

// ------------------------------------------------------------ teardown

func (w *world) teardown() {
	w.wg.Wait()
	w.nw.HealAll()
	// connections into a black hole end when the operating system's TCP
	// keep-alive gives up (minutes); model that as a reset before draining
	for _, n := range w.nodes {
		if n.killed {
			w.nw.Crash(n.host, true)
		}
	}
	for _, a := range w.apps {
		a.shutdown()
	}
	var wg sync.WaitGroup
	for _, n := range w.nodes {
		if n.srv != nil && !n.stopped {
			wg.Add(1)
			go func(n *node) {
				defer wg.Done()
				simnet.SetHost(n.host)
				n.srv.Shutdown()
			}(n)
		}
	}
	wg.Wait()
	w.tr.CloseIdleConnections()
}
