package h3

import (
	"bytes"
	"context"
	"fmt"
	"io"
	"net"
	"net/url"
	"sync"
	"time"

	agentconfig "github.com/andydunstall/piko/agent/config"
	"github.com/andydunstall/piko/agent/tcpproxy"
	"github.com/andydunstall/piko/client"
	"github.com/andydunstall/piko/forward"
	"github.com/andydunstall/piko/pkg/log"
	"github.com/andydunstall/piko/verifsim/simkit"
	"github.com/andydunstall/piko/verifsim/simnet"
)

// C07: tunnelled TCP connections - dialer or forward proxy, through one or two
// server nodes, to an upstream listener, client forwarder or agent TCP proxy -
// are faithful byte streams and propagate close.

func genTCP(rng *simkit.Rand, tier string, idx int) *simkit.Case {
	c := &simkit.Case{Family: "h3.tcp", Cfg: map[string]int64{}}
	c.Cfg["nodes"] = int64(rng.Range(1, 2))
	c.Cfg["interval_ms"] = 50
	c.Cfg["upstream_kind"] = int64(rng.Intn(3))   // 0 raw listener, 1 client.Forwarder, 2 agent tcpproxy
	c.Cfg["downstream_kind"] = int64(rng.Intn(2)) // 0 client.Dialer, 1 forward.Forwarder
	c.Cfg["yield_den"] = []int64{0, 64, 8, 2}[rng.Intn(4)]
	c.Cfg["stall_den"] = []int64{0, 0, 200}[rng.Intn(3)] // execution-time fault in a third of the runs
	c.Cfg["stall_max_us"] = 500
	c.Cfg["stream_delay_us"] = []int64{0, 100, 1000, 5000}[rng.Intn(4)]
	c.Cfg["segment"] = []int64{0, 300, 900}[rng.Intn(3)]
	c.Cfg["window"] = []int64{4 << 10, 64 << 10, 256 << 10}[rng.Intn(3)]
	c.Cfg["timeout_ms"] = []int64{1000, 3000, 30000}[rng.Intn(3)] // proxy.timeout must not apply to tunnels
	n := rng.Range(1, 6)
	for i := 0; i < n; i++ {
		c.Script = append(c.Script, simkit.Op{K: "conn", A: rng.Intn(1 << 30), B: rng.Intn(1 << 16), C: rng.Intn(1 << 16)})
	}
	return c
}

type tcpPlan struct {
	up       []byte // client -> service
	down     []byte // service -> client (sent unprompted, concurrently)
	upChunk  int    // write sizes (0 = random)
	rdBuf    int
	closer   int // 0 client closes after everything arrived, 1 service closes after sending, 2 client closes early
	stallMs  int // the service pauses reading for a while in the middle
	entry    int
	emptyWr  bool
}

// tcpService is the harness-side TCP application behind the tunnel.
type tcpService struct {
	w     *cluster3
	mu    sync.Mutex
	plans []*tcpPlan
	next  int
	done  chan *svcResult
}

type svcResult struct {
	got     []byte
	readErr error
	eofAt   time.Duration
	plan    *tcpPlan
}

func (s *tcpService) handle(c net.Conn) {
	s.mu.Lock()
	if s.next >= len(s.plans) {
		s.mu.Unlock()
		c.Close()
		return
	}
	p := s.plans[s.next]
	s.next++
	s.mu.Unlock()
	res := &svcResult{plan: p}
	var wg sync.WaitGroup
	wg.Add(1)
	go func() { // unprompted downstream data, in chunks
		defer wg.Done()
		writeChunks(c, p.down, p.upChunk/2+1, p.emptyWr)
	}()
	buf := make([]byte, p.rdBuf)
	for {
		if p.closer == 1 && len(res.got) >= len(p.up) {
			break
		}
		if p.stallMs > 0 && len(res.got) > len(p.up)/2 {
			time.Sleep(time.Duration(p.stallMs) * time.Millisecond)
			p.stallMs = 0
		}
		n, err := c.Read(buf)
		res.got = append(res.got, buf[:n]...)
		if err != nil {
			res.readErr = err
			res.eofAt = s.w.run.Now()
			break
		}
	}
	if res.readErr != nil {
		// the peer is gone: an application closes its end (which also ends its own
		// pending writes) rather than keep writing into a half-closed stream
		c.Close()
	}
	wg.Wait()
	c.Close()
	s.done <- res
}

func writeChunks(c net.Conn, data []byte, chunk int, empties bool) error {
	i := 0
	for i < len(data) {
		n := chunk
		if n <= 0 || n > len(data)-i {
			n = len(data) - i
		}
		if empties && i%3 == 0 {
			if _, err := c.Write(nil); err != nil {
				return err
			}
		}
		if _, err := c.Write(data[i : i+n]); err != nil {
			return err
		}
		i += n
	}
	return nil
}

func execTCP(run *simkit.Run) {
	c := run.Case
	ncfg := netCfg(c)
	ncfg.Window = c.Int("window")
	w := &cluster3{world: newWorld(run, ncfg), prop: "C07"}
	defer w.teardown()
	for i := 0; i < c.Int("nodes"); i++ {
		w.startNode(nodeOpts{interval: 50 * time.Millisecond, proxyTimeout: time.Duration(c.Int("timeout_ms")) * time.Millisecond})
		if run.Stop() {
			return
		}
	}
	svc := &tcpService{w: w, done: make(chan *svcResult, 16)}
	ctx, cancel := context.WithCancel(context.Background())
	defer cancel()
	upURL := &url.URL{Scheme: "http", Host: host(0) + ":8001"}
	var closers []func()
	defer func() {
		for _, f := range closers {
			f()
		}
	}()
	// ---- upstream side
	switch c.Int("upstream_kind") {
	case 0:
		errc := make(chan error, 1)
		go func() {
			simnet.SetHost("10.1.0.1")
			u := &client.Upstream{URL: upURL}
			ln, err := u.Listen(ctx, "t1")
			errc <- err
			if err != nil {
				return
			}
			closers = append(closers, func() { ln.Shutdown() })
			for {
				conn, err := ln.Accept()
				if err != nil {
					return
				}
				go svc.handle(conn)
			}
		}()
		if err := <-errc; err != nil {
			run.Fail("SIM.setup", "listen", "%v", err)
			return
		}
	default:
		// a plain TCP service on the simulated network, reached through piko's
		// own forwarding component
		sln, err := simnet.Listen("tcp", "10.2.0.1:9000")
		if err != nil {
			run.Fail("SIM.setup", "service-listen", "%v", err)
			return
		}
		closers = append(closers, func() { sln.Close() })
		go func() {
			for {
				conn, err := sln.Accept()
				if err != nil {
					return
				}
				go svc.handle(conn)
			}
		}()
		errc := make(chan error, 1)
		if c.Int("upstream_kind") == 1 {
			go func() {
				simnet.SetHost("10.1.0.1")
				u := &client.Upstream{URL: upURL}
				f, err := u.ListenAndForward(ctx, "t1", "10.2.0.1:9000")
				errc <- err
				if err == nil {
					closers = append(closers, func() { f.Close() })
				}
			}()
		} else {
			go func() {
				simnet.SetHost("10.1.0.1")
				u := &client.Upstream{URL: upURL}
				ln, err := u.Listen(ctx, "t1")
				errc <- err
				if err != nil {
					return
				}
				srv := tcpproxy.NewServer(agentconfig.ListenerConfig{EndpointID: "t1", Addr: "10.2.0.1:9000", Protocol: agentconfig.ListenerProtocolTCP, Timeout: 10 * time.Second}, log.NewNopLogger())
				closers = append(closers, func() { ln.Shutdown() })
				_ = srv.Serve(ln)
			}()
		}
		if err := <-errc; err != nil {
			run.Fail("SIM.setup", "forwarder", "%v", err)
			return
		}
	}
	if ok, why := w.waitSettled(200, false); !ok {
		run.Fail("SIM.setup", "not-settled", "%s", why)
		return
	}
	time.Sleep(10 * w.intv)
	// ---- downstream side
	var fwdLn net.Listener
	if c.Int("downstream_kind") == 1 {
		entry := len(w.nodes) - 1
		fl, err := simnet.Listen("tcp", "10.3.0.1:7000")
		if err != nil {
			run.Fail("SIM.setup", "forward-listen", "%v", err)
			return
		}
		fwdLn = fl
		go func() {
			simnet.SetHost("10.3.0.1")
			f := forward.NewForwarder("t1", &client.Dialer{URL: &url.URL{Scheme: "http", Host: host(entry) + ":8000"}}, log.NewNopLogger())
			_ = f.Forward(fl)
		}()
		closers = append(closers, func() { fl.Close() })
	}
	for i, op := range c.Script {
		if run.Stop() {
			break
		}
		run.Step = i
		run.Steps++
		w.tcpConn(svc, op, fwdLn != nil)
	}
	run.Probe("nontrivial")
	run.Summary = fmt.Sprintf("tcp nodes=%d upstream_kind=%d downstream_kind=%d window=%d segment=%d‰ conns=%d", len(w.nodes), c.Int("upstream_kind"), c.Int("downstream_kind"), c.Int("window"), c.Int("segment"), len(c.Script))
}

func (w *cluster3) tcpConn(svc *tcpService, op simkit.Op, viaForwarder bool) {
	run := w.run
	r := simkit.NewRand(uint64(op.A)<<16 ^ uint64(op.B)<<3 ^ uint64(op.C))
	sizes := []int{0, 1, 2, 100, 4095, 4096, 4097, 32 << 10, 65537, 300 << 10, 1 << 20}
	p := &tcpPlan{
		up:      patterned(sizes[r.Intn(len(sizes))], byte(r.Intn(200))),
		down:    patterned(sizes[r.Intn(len(sizes))], byte(r.Intn(200))),
		upChunk: []int{0, 1, 7, 512, 4096, 65536}[r.Intn(6)],
		rdBuf:   []int{1, 2, 100, 4096, 32 << 10}[r.Intn(5)],
		closer:  r.Intn(3),
		entry:   r.Intn(len(w.nodes)),
		emptyWr: r.Intn(3) == 0,
	}
	if r.Intn(4) == 0 {
		p.stallMs = r.Range(1, 800)
		if r.Intn(2) == 0 {
			// idle for longer than the proxy's request timeout: a tunnel is not a request
			p.stallMs = 1500 * r.Range(1, 4)
			w.run.Probe("c07.tunnel_idle_past_proxy_timeout")
		}
	}
	if p.rdBuf <= 100 {
		// tiny read buffers over megabytes only cost wall time
		if len(p.up) > 32<<10 {
			p.up = p.up[:32<<10]
		}
		if len(p.down) > 32<<10 {
			p.down = p.down[:32<<10]
		}
	}
	if len(p.up) > 64<<10 && p.upChunk == 1 {
		p.upChunk = 4096 // one-byte writes of a large payload only cost wall time
	}
	if len(p.down) > 64<<10 && p.upChunk/2+1 < 64 {
		p.down = p.down[:64<<10]
	}
	svc.mu.Lock()
	svc.plans = append(svc.plans, p)
	svc.mu.Unlock()
	tag := fmt.Sprintf("conn up=%d down=%d chunk=%d rdbuf=%d closer=%d stall=%dms entry=n%d", len(p.up), len(p.down), p.upChunk, p.rdBuf, p.closer, p.stallMs, p.entry)
	var conn net.Conn
	var err error
	if viaForwarder {
		conn, err = simnet.Dial("tcp", "10.3.0.1:7000")
	} else {
		d := &client.Dialer{URL: &url.URL{Scheme: "http", Host: host(p.entry) + ":8000"}}
		ctx, cancel := context.WithTimeout(context.Background(), 20*time.Second)
		conn, err = d.Dial(ctx, "t1")
		cancel()
	}
	if err != nil {
		run.Fail("C07.stream", "dial-failed", "%s: %v", tag, err)
		return
	}
	var got []byte
	var rerr error
	var eofAt time.Duration
	rdone := make(chan struct{})
	go func() {
		defer close(rdone)
		buf := make([]byte, p.rdBuf)
		for {
			n, err := conn.Read(buf)
			got = append(got, buf[:n]...)
			if err != nil {
				rerr, eofAt = err, run.Now()
				return
			}
		}
	}()
	upN := len(p.up)
	if p.closer == 2 {
		upN = len(p.up) / 2
	}
	werr := writeChunks(conn, p.up[:upN], p.upChunk, p.emptyWr)
	var closedAt time.Duration
	switch p.closer {
	case 0:
		// wait until everything the service sends unprompted has arrived, then close
		deadline := time.Now().Add(60 * time.Second)
		for time.Now().Before(deadline) {
			select {
			case <-rdone:
			default:
			}
			if rerr != nil {
				break
			}
			time.Sleep(20 * time.Millisecond)
			if len(got) >= len(p.down) {
				break
			}
		}
		closedAt = run.Now()
		conn.Close()
	case 2:
		closedAt = run.Now()
		conn.Close()
	}
	var sres *svcResult
	select {
	case sres = <-svc.done:
	case <-time.After(90 * time.Second):
		run.Fail("C07.eos", "service-never-saw-end", "%s: the service end's read did not terminate within 90s of the client side finishing (closer=%d)", tag, p.closer)
		conn.Close()
		return
	}
	select {
	case <-rdone:
	case <-time.After(30 * time.Second):
		run.Fail("C07.eos", "client-never-saw-end", "%s: the service closed its end but the client's read did not terminate within 30s", tag)
		conn.Close()
		<-rdone
		return
	}
	conn.Close()
	run.Logf("%s -> service got %d (%v), client got %d (%v), write err %v", tag, len(sres.got), sres.readErr, len(got), rerr, werr)
	// ---- stream fidelity
	wantUp := p.up[:upN]
	switch {
	case p.closer == 2:
		// the client closed while data was in flight: a prefix, never anything else
		if !bytes.HasPrefix(wantUp, sres.got) {
			run.Fail("C07.stream", "upstream-bytes-differ", "%s: the service received %d bytes that are not a prefix of what was written (%s)", tag, len(sres.got), firstDiff(wantUp, sres.got))
		}
	case werr != nil && p.closer != 1:
		run.Fail("C07.stream", "write-failed", "%s: write failed: %v", tag, werr)
	default:
		if p.closer == 1 {
			if !bytes.HasPrefix(sres.got, wantUp) && !bytes.HasPrefix(wantUp, sres.got) {
				run.Fail("C07.stream", "upstream-bytes-differ", "%s: %s", tag, firstDiff(wantUp, sres.got))
			}
		} else if !bytes.Equal(sres.got, wantUp) {
			run.Fail("C07.stream", "upstream-bytes-differ", "%s: the service received %d of %d bytes: %s", tag, len(sres.got), len(wantUp), firstDiff(wantUp, sres.got))
		}
	}
	if p.closer == 2 {
		if !bytes.HasPrefix(p.down, got) {
			run.Fail("C07.stream", "downstream-bytes-differ", "%s: the client received bytes that are not a prefix of what the service sent (%s)", tag, firstDiff(p.down, got))
		}
	} else if !bytes.Equal(got, p.down) {
		run.Fail("C07.stream", "downstream-bytes-differ", "%s: the client received %d of %d bytes: %s", tag, len(got), len(p.down), firstDiff(p.down, got))
	}
	// ---- close propagation
	if p.closer != 1 && sres.readErr == nil {
		run.Fail("C07.eos", "service-never-saw-end", "%s: the client closed but the service's read ended without end-of-stream", tag)
	}
	if p.closer != 1 && sres.eofAt-closedAt > 10*time.Second {
		run.Fail("C07.eos", "close-propagated-late", "%s: the service saw the end %v after the client closed", tag, sres.eofAt-closedAt)
	}
	_ = eofAt
	run.Probe("c07.conn_checked")
	if len(w.nodes) > 1 && p.entry != 0 {
		run.Probe("c07.cross_node")
	}
}

func firstDiff(want, got []byte) string {
	n := len(want)
	if len(got) < n {
		n = len(got)
	}
	for i := 0; i < n; i++ {
		if want[i] != got[i] {
			return fmt.Sprintf("first difference at byte %d (want %#x got %#x), lengths %d/%d", i, want[i], got[i], len(want), len(got))
		}
	}
	return fmt.Sprintf("common prefix %d, lengths want %d got %d", n, len(want), len(got))
}

var _ = io.EOF

func init() {
	simkit.Register(&simkit.Prop{ID: "C07", Gen: genTCP, Exec: execTCP, MaxWall: 120 * time.Second})
}
