package h3

import (
	"bytes"
	"context"
	"crypto/ecdsa"
	"crypto/elliptic"
	"crypto/rand"
	"crypto/rsa"
	"crypto/x509"
	"encoding/base64"
	"encoding/pem"
	"fmt"
	"io"
	"net/http"
	"net/url"
	"strings"
	"sync"
	"testing/synctest"
	"time"

	"github.com/andydunstall/piko/client"
	"github.com/andydunstall/piko/pkg/auth"
	"github.com/andydunstall/piko/server/config"
	"github.com/andydunstall/piko/verifsim/simkit"
	"github.com/andydunstall/piko/verifsim/simnet"
	"github.com/golang-jwt/jwt/v5"
)

// C09 / C10 / C16.expiry: authentication on the running ports of complete
// nodes. Tokens are *constructed* with known properties (key, algorithm,
// claims, tampering, header form); the expected verdict follows from the
// construction and the virtual clock, never from re-verifying the token.

type keySet struct {
	hmac    [2][]byte
	rsa     [2]*rsa.PrivateKey
	ec      [2]*ecdsa.PrivateKey
	rsaPEM  [2]string
	ecPEM   [2]string
}

var (
	keysOnce sync.Once
	keys     keySet
)

// testKeys are generated once per worker process, outside any bubble. Their
// bytes never influence control flow or the event log.
func testKeys() *keySet {
	keysOnce.Do(func() {
		keys.hmac = [2][]byte{[]byte("secret-key-number-one-0123456789"), []byte("another-secret-key-abcdefghijklm")}
		for i := 0; i < 2; i++ {
			rk, err := rsa.GenerateKey(rand.Reader, 2048)
			if err != nil {
				panic(err)
			}
			keys.rsa[i] = rk
			b, _ := x509.MarshalPKIXPublicKey(&rk.PublicKey)
			keys.rsaPEM[i] = string(pem.EncodeToMemory(&pem.Block{Type: "PUBLIC KEY", Bytes: b}))
			ek, err := ecdsa.GenerateKey(elliptic.P256(), rand.Reader)
			if err != nil {
				panic(err)
			}
			keys.ec[i] = ek
			b, _ = x509.MarshalPKIXPublicKey(&ek.PublicKey)
			keys.ecPEM[i] = string(pem.EncodeToMemory(&pem.Block{Type: "PUBLIC KEY", Bytes: b}))
		}
	})
	return &keys
}

func init() { testKeys() }

// portAuth is the authentication configuration of one port (key index 0 of
// each configured family is the configured key; index 1 is "another key").
type portAuth struct {
	enabled        bool
	hmac, rsa, ec  bool
	audience, iss  string
	noDisconnect   bool
}

func (p portAuth) conf() auth.Config {
	k := testKeys()
	c := auth.Config{Audience: p.audience, Issuer: p.iss, DisableDisconnectOnExpiry: p.noDisconnect}
	if !p.enabled {
		return c
	}
	if p.hmac {
		c.HMACSecretKey = string(k.hmac[0])
	}
	if p.rsa {
		c.RSAPublicKey = k.rsaPEM[0]
	}
	if p.ec {
		c.ECDSAPublicKey = k.ecPEM[0]
	}
	return c
}

func drawPortAuth(r *simkit.Rand, always bool) portAuth {
	p := portAuth{enabled: always || r.Intn(4) != 0}
	if !p.enabled {
		return p
	}
	switch r.Intn(6) {
	case 0:
		p.hmac = true
	case 1:
		p.rsa = true
	case 2:
		p.ec = true
	case 3:
		p.hmac, p.rsa = true, true
	case 4:
		p.rsa, p.ec = true, true
	default:
		p.hmac, p.rsa, p.ec = true, true, true
	}
	if r.Intn(3) == 0 {
		p.audience = "piko-aud"
	}
	if r.Intn(3) == 0 {
		p.iss = "piko-iss"
	}
	return p
}

// tokenSpec describes how a token is built and, from that, whether a port
// configured with `pa` must accept it at virtual time `now`.
type tokenSpec struct {
	family    string // hs | rs | es | none
	keyIdx    int    // 0 configured key, 1 another key of the same family
	confusion int    // 1: HS* keyed with the RSA public PEM, 2: with the EC public PEM, 3: empty HMAC key
	tamper    int    // 0 none, 1 payload, 2 signature
	exp       time.Duration // relative to now; 0 = no exp claim
	nbf       time.Duration // relative to now; 0 = none
	aud, iss  string
	endpoints []string
	form      int // header form, see headerFor
	desc      string
}

func (t *tokenSpec) sign(now time.Time) string {
	k := testKeys()
	claims := jwt.MapClaims{}
	if t.exp != 0 {
		claims["exp"] = jwt.NewNumericDate(now.Add(t.exp))
	}
	if t.nbf != 0 {
		claims["nbf"] = jwt.NewNumericDate(now.Add(t.nbf))
	}
	if t.aud != "" {
		claims["aud"] = t.aud
	}
	if t.iss != "" {
		claims["iss"] = t.iss
	}
	if t.endpoints != nil {
		claims["piko"] = map[string]any{"endpoints": t.endpoints}
	}
	var s string
	var err error
	switch {
	case t.family == "none":
		s, err = jwt.NewWithClaims(jwt.SigningMethodNone, claims).SignedString(jwt.UnsafeAllowNoneSignatureType)
	case t.confusion == 1:
		s, err = jwt.NewWithClaims(jwt.SigningMethodHS256, claims).SignedString([]byte(k.rsaPEM[0]))
	case t.confusion == 2:
		s, err = jwt.NewWithClaims(jwt.SigningMethodHS256, claims).SignedString([]byte(k.ecPEM[0]))
	case t.confusion == 3:
		s, err = jwt.NewWithClaims(jwt.SigningMethodHS256, claims).SignedString([]byte{})
	case t.family == "hs":
		s, err = jwt.NewWithClaims([]jwt.SigningMethod{jwt.SigningMethodHS256, jwt.SigningMethodHS384, jwt.SigningMethodHS512}[t.form%3], claims).SignedString(k.hmac[t.keyIdx])
	case t.family == "rs":
		s, err = jwt.NewWithClaims([]jwt.SigningMethod{jwt.SigningMethodRS256, jwt.SigningMethodRS512}[t.form%2], claims).SignedString(k.rsa[t.keyIdx])
	case t.family == "es":
		s, err = jwt.NewWithClaims(jwt.SigningMethodES256, claims).SignedString(k.ec[t.keyIdx])
	}
	if err != nil {
		panic(err)
	}
	parts := strings.Split(s, ".")
	switch t.tamper {
	case 1:
		// change a claim without re-signing
		raw, _ := base64.RawURLEncoding.DecodeString(parts[1])
		raw = bytes.Replace(raw, []byte("{"), []byte(`{"x":1,`), 1)
		parts[1] = base64.RawURLEncoding.EncodeToString(raw)
	case 2:
		if len(parts[2]) > 4 {
			b := []byte(parts[2])
			if b[3] == 'A' {
				b[3] = 'B'
			} else {
				b[3] = 'A'
			}
			parts[2] = string(b)
		} else {
			parts[2] = "AAAA"
		}
	}
	return strings.Join(parts, ".")
}

// valid: must a port configured with pa accept this token (ignoring endpoints)?
func (t *tokenSpec) valid(pa portAuth) bool {
	if t.tamper != 0 || t.confusion != 0 || t.family == "none" || t.keyIdx != 0 {
		return false
	}
	if (t.family == "hs" && !pa.hmac) || (t.family == "rs" && !pa.rsa) || (t.family == "es" && !pa.ec) {
		return false
	}
	if t.exp != 0 && t.exp < 0 {
		return false
	}
	if t.nbf > 0 {
		return false
	}
	if pa.audience != "" && t.aud != pa.audience {
		return false
	}
	if pa.iss != "" && t.iss != pa.iss {
		return false
	}
	return true
}

func drawToken(r *simkit.Rand, pa portAuth) *tokenSpec {
	t := &tokenSpec{aud: pa.audience, iss: pa.iss, form: r.Intn(6)}
	fams := []string{}
	if pa.hmac {
		fams = append(fams, "hs")
	}
	if pa.rsa {
		fams = append(fams, "rs")
	}
	if pa.ec {
		fams = append(fams, "es")
	}
	t.family = fams[r.Intn(len(fams))]
	t.desc = "valid"
	if r.Intn(3) == 0 {
		t.exp = time.Duration(r.Range(5, 3600)) * time.Second
		t.desc = "valid with exp"
	}
	switch r.Intn(16) {
	case 0:
		t.exp, t.desc = -time.Duration(r.Range(1, 3600))*time.Second, "expired"
	case 1:
		t.nbf, t.desc = time.Duration(r.Range(5, 3600))*time.Second, "not yet valid"
	case 2:
		t.keyIdx, t.desc = 1, "signed with another key"
	case 3:
		t.family, t.desc = "none", "alg none"
	case 4:
		// an algorithm family that is not configured on the port
		for _, f := range []string{"hs", "rs", "es"} {
			if (f == "hs" && !pa.hmac) || (f == "rs" && !pa.rsa) || (f == "es" && !pa.ec) {
				t.family, t.desc = f, "algorithm family not configured"
			}
		}
	case 5:
		t.confusion, t.family, t.desc = 1+r.Intn(3), "hs", "HMAC keyed with a public key / empty key"
	case 6:
		t.tamper, t.desc = 1, "payload changed after signing"
	case 7:
		t.tamper, t.desc = 2, "signature changed"
	case 8:
		t.aud, t.desc = "someone-else", "audience "+map[bool]string{true: "wrong", false: "not required"}[pa.audience != ""]
	case 9:
		t.iss, t.desc = "someone-else", "issuer "+map[bool]string{true: "wrong", false: "not required"}[pa.iss != ""]
	case 10:
		if pa.audience != "" {
			t.aud, t.desc = "", "audience missing"
		}
	}
	return t
}

// headerFor builds the authorization headers for a token; wantOK tells whether
// that form presents the token at all.
func headerFor(h http.Header, tok string, form int, other string) (presented bool, desc string) {
	switch form {
	case 0, 1, 2:
		h.Set("Authorization", "Bearer "+tok)
		return true, "Authorization: Bearer"
	case 3:
		h.Set("x-piko-authorization", "Bearer "+tok)
		h.Set("Authorization", "Basic dXNlcjpwYXNz")
		return true, "x-piko-authorization wins over Authorization"
	case 4:
		// x-piko-authorization takes precedence: a bad token there must not be
		// rescued by a good one in Authorization
		h.Set("x-piko-authorization", "Bearer "+other)
		h.Set("Authorization", "Bearer "+tok)
		return false, "bad x-piko-authorization shadows a good Authorization"
	default:
		h.Set("Authorization", []string{"bearer " + tok, tok, "Basic " + tok, "Bearer", ""}[form%5])
		return false, "malformed scheme"
	}
}

func genAuth(prop string) func(rng *simkit.Rand, tier string, idx int) *simkit.Case {
	return func(rng *simkit.Rand, tier string, idx int) *simkit.Case {
		c := &simkit.Case{Family: "h3.auth", Cfg: map[string]int64{}}
		c.Cfg["nodes"] = int64(rng.Range(1, 2))
		c.Cfg["interval_ms"] = 50
		c.Cfg["authseed"] = int64(rng.Intn(1 << 30))
		c.Cfg["tenants"] = int64(rng.Intn(3))
		c.Cfg["yield_den"] = []int64{0, 64, 8}[rng.Intn(3)]
		c.Cfg["stall_den"] = []int64{0, 0, 200}[rng.Intn(3)] // execution-time fault in a third of the runs
		c.Cfg["stall_max_us"] = 500
		kinds := []string{"proxy", "proxy", "tcp", "admin", "admin", "listen", "listen", "expiry", "reuse"}
		if prop == "C16" {
			kinds = []string{"expiry", "expiry", "expiry-edge", "expiry-edge", "expiry-edge", "listen", "proxy"}
			// execution takes time: only then can an instant (a token's expiry)
			// pass between two statements of the server's handler
			c.Cfg["stall_den"] = []int64{0, 40, 150, 600}[rng.Intn(4)]
			c.Cfg["stall_max_us"] = []int64{100, 1000, 3000}[rng.Intn(3)]
		}
		n := rng.Range(6, 30)
		for i := 0; i < n; i++ {
			c.Script = append(c.Script, simkit.Op{K: kinds[rng.Intn(len(kinds))], A: rng.Intn(1 << 30), B: rng.Intn(1 << 16), C: rng.Intn(1 << 16)})
		}
		return c
	}
}

type authWorld struct {
	*cluster3
	proxy, upstream, admin portAuth
	tenants               []string // tenant ids; tenant i uses hmac key... see tenantKey
	served                map[string]bool
}

var adminPaths = []string{"/health", "/ready", "/metrics", "/status/upstream/endpoints", "/status/cluster/nodes", "/status/gossip/nodes", "/debug/pprof/", "/debug/pprof/cmdline", "/debug/pprof/heap", "/debug/pprof/goroutine", "/does/not/exist"}

func execAuth(run *simkit.Run) {
	c := run.Case
	w := &authWorld{cluster3: &cluster3{world: newWorld(run, netCfg(c)), prop: "C09"}}
	defer w.teardown()
	r := simkit.NewRand(uint64(c.I64("authseed")))
	w.proxy, w.upstream, w.admin = drawPortAuth(r, false), drawPortAuth(r, false), drawPortAuth(r, false)
	w.upstream.noDisconnect = r.Intn(4) == 0
	// (a generator of its own: the draws above and below stay what they were)
	r2 := simkit.NewRand(uint64(c.I64("authseed")) ^ 0x5eed0c09)
	w.proxy.noDisconnect, w.admin.noDisconnect = r2.Intn(3) == 0, r2.Intn(3) == 0
	nt := c.Int("tenants")
	for i := 0; i < nt; i++ {
		w.tenants = append(w.tenants, fmt.Sprintf("tenant%d", i))
	}
	k := testKeys()
	for i := 0; i < c.Int("nodes"); i++ {
		w.startNode(nodeOpts{interval: 50 * time.Millisecond, tweak: func(_ int, conf *config.Config) {
			conf.Proxy.Auth = w.proxy.conf()
			conf.Upstream.Auth = w.upstream.conf()
			conf.Admin.Auth = w.admin.conf()
			for ti, id := range w.tenants {
				// tenant 0 is keyed with the second HMAC key, tenant 1 with the second RSA key
				tc := config.TenantConfig{ID: id}
				if ti == 0 {
					tc.Auth.HMACSecretKey = string(k.hmac[1])
				} else {
					tc.Auth.RSAPublicKey = k.rsaPEM[1]
				}
				conf.Upstream.Tenants = append(conf.Upstream.Tenants, tc)
			}
		}})
		if run.Stop() {
			return
		}
	}
	// an upstream application for the proxy tests (registered with a valid token)
	tok := ""
	tenant := ""
	if len(w.tenants) > 0 {
		tenant = w.tenants[0]
		tok = (&tokenSpec{family: "hs", keyIdx: 1}).signWith(k.hmac[1], time.Now())
	} else if w.upstream.enabled {
		t := drawValid(w.upstream)
		tok = t.sign(time.Now())
	}
	for _, ep := range []string{"e1", "e10"} {
		if _, err := w.listenAuth(ep, "http", 0, tok, tenant); err != nil {
			run.Fail("SIM.setup", "listen", "%v (upstream auth %+v tenants %v)", err, w.upstream, w.tenants)
			return
		}
	}
	if _, err := w.listenAuth("t1", "tcp", 0, tok, tenant); err != nil {
		run.Fail("SIM.setup", "listen", "%v", err)
		return
	}
	if ok, why := w.waitSettled(200, true); !ok {
		run.Fail("SIM.setup", "not-settled", "%s", why)
		return
	}
	for i, op := range c.Script {
		if run.Stop() {
			break
		}
		run.Step = i
		run.Steps++
		rr := simkit.NewRand(uint64(op.A)<<16 ^ uint64(op.B)<<1 ^ uint64(op.C))
		switch op.K {
		case "proxy":
			w.authProxy(rr, false)
		case "tcp":
			w.authProxy(rr, true)
		case "admin":
			w.authAdmin(rr)
		case "listen":
			w.authListen(rr)
		case "expiry":
			w.authExpiry(rr)
		case "reuse":
			w.authReuse(rr)
		case "expiry-edge":
			w.authExpiryEdge(rr)
		}
	}
	if !run.Stop() && r.Intn(2) == 0 {
		w.authShutdown(r)
	}
	run.Probe("nontrivial")
	run.Summary = fmt.Sprintf("auth nodes=%d proxy=%+v upstream=%+v admin=%+v tenants=%d ops=%d", len(w.nodes), w.proxy, w.upstream, w.admin, len(w.tenants), len(c.Script))
}

func drawValid(pa portAuth) *tokenSpec {
	t := &tokenSpec{aud: pa.audience, iss: pa.iss}
	switch {
	case pa.hmac:
		t.family = "hs"
	case pa.rsa:
		t.family = "rs"
	default:
		t.family = "es"
	}
	return t
}

func (t *tokenSpec) signWith(key []byte, now time.Time) string {
	claims := jwt.MapClaims{}
	if t.exp != 0 {
		claims["exp"] = jwt.NewNumericDate(now.Add(t.exp))
	}
	if t.endpoints != nil {
		claims["piko"] = map[string]any{"endpoints": t.endpoints}
	}
	s, err := jwt.NewWithClaims(jwt.SigningMethodHS256, claims).SignedString(key)
	if err != nil {
		panic(err)
	}
	return s
}

func (w *authWorld) listenAuth(ep, kind string, nodeIdx int, token, tenant string) (*app, error) {
	w.mu.Lock()
	w.nextID++
	a := &app{id: w.nextID, endpoint: ep, kind: kind, node: nodeIdx, w: w.world}
	w.mu.Unlock()
	a.target = w.nodes[nodeIdx].host + ":8001"
	ctx, cancel := context.WithCancel(context.Background())
	a.cancel = cancel
	errc := make(chan error, 1)
	go func() {
		simnet.SetHost(a.host())
		u := &client.Upstream{URL: &url.URL{Scheme: "http", Host: a.target}, Token: token, TenantID: tenant,
			MinReconnectBackoff: 100 * time.Millisecond, MaxReconnectBackoff: 2 * time.Second}
		lctx, lcancel := context.WithTimeout(ctx, 5*time.Second)
		defer lcancel()
		ln, err := u.Listen(lctx, ep)
		if err != nil {
			errc <- err
			return
		}
		a.ln = ln
		errc <- nil
		if kind == "tcp" {
			a.serveTCP()
			return
		}
		a.srv = &http.Server{Handler: a}
		_ = a.srv.Serve(ln)
	}()
	if err := <-errc; err != nil {
		cancel()
		return nil, err
	}
	w.apps = append(w.apps, a)
	return a, nil
}

// claimsFor draws an endpoints claim and tells whether it permits ep.
func claimsFor(r *simkit.Rand, ep string) ([]string, bool) {
	switch r.Intn(6) {
	case 0:
		return nil, true
	case 1:
		return []string{ep}, true
	case 2:
		return []string{"other", ep, "e100"}, true
	case 3:
		return []string{ep + "0", "x" + ep, strings.ToUpper(ep)}, false // near misses
	case 4:
		return []string{"other"}, false
	default:
		return []string{}, true // an empty list permits everything
	}
}

func (w *authWorld) authProxy(r *simkit.Rand, tcp bool) {
	run := w.run
	pa := w.proxy
	entry := w.liveNodes()[r.Intn(len(w.liveNodes()))]
	now := time.Now()
	ep := []string{"e1", "e10"}[r.Intn(2)]
	if tcp {
		ep = "t1"
	}
	rq := w.buildReq(entry.idx, ep, []int{0, 1, 2}[r.Intn(3)])
	if tcp {
		rq = &httpReq{Entry: entry.idx, Method: "GET", Path: "/_piko/v1/tcp/" + ep, Header: http.Header{}, ID: w.newID(), Endpoint: ep}
	}
	run.Probe("c09.proxy_request")
	if !pa.enabled {
		res := w.do(rq)
		if res.Err == nil && res.Status == 401 {
			run.Fail("C09.allow", "401-without-auth-configured", "proxy port has no authentication configured but %s got 401", rq.ID)
		}
		return
	}
	if r.Intn(4) == 0 {
		// what a client may send must not switch checks off
		rq.Header.Set("x-piko-forward", []string{"true", "true", "false"}[r.Intn(3)])
	}
	t := drawToken(r, pa)
	var permitted bool
	t.endpoints, permitted = claimsFor(r, rq.Endpoint)
	tok := t.sign(now)
	bad := (&tokenSpec{family: t.family, keyIdx: 1, aud: pa.audience, iss: pa.iss}).signSafe(now, pa)
	presented, form := headerFor(rq.Header, tok, t.form, bad)
	accept := presented && t.valid(pa)
	res := w.do(rq)
	if res.Err != nil {
		run.Logf("%s auth request error %v", rq.ID, res.Err)
		return
	}
	tag := fmt.Sprintf("%s via %s for %q tcp=%v token[%s, family=%s, endpoints=%v] header[%s] port[%+v]", rq.ID, entry.id, rq.Endpoint, tcp, t.desc, t.family, t.endpoints, form, pa)
	run.Logf("%s -> %d", tag, res.Status)
	w.mu.Lock()
	delivered := len(w.reqs[rq.ID]) > 0
	w.mu.Unlock()
	switch {
	case !accept:
		if res.Status != 401 {
			run.Fail("C09.deny", "invalid-token-accepted", "%s: must be refused with 401, got %d", tag, res.Status)
		}
		if delivered {
			run.Fail("C09.deny", "invalid-token-reached-upstream", "%s: reached an upstream application", tag)
		}
	case !permitted:
		if res.Status != 401 {
			run.Fail("C10.confine", "endpoint-outside-claim-accepted", "%s: the token does not list the routed endpoint, got %d", tag, res.Status)
		}
		if delivered {
			run.Fail("C10.confine", "endpoint-outside-claim-served", "%s: reached an upstream application", tag)
		}
		run.Probe("c10.refused_outside_claim")
	default:
		if res.Status == 401 {
			run.Fail("C09.allow", "valid-token-refused", "%s: must be accepted, got 401 (%s)", tag, strings.TrimSpace(string(res.Body)))
		}
		if st := res.Header.Get("X-Stamp-Endpoint"); st != "" && len(t.endpoints) > 0 {
			ok := false
			for _, e := range t.endpoints {
				if e == st {
					ok = true
				}
			}
			if !ok {
				run.Fail("C10.confine", "served-by-endpoint-outside-claim", "%s: served by an upstream of %q", tag, st)
			}
		}
		run.Probe("c09.accepted")
	}
	w.judgeRouting(rq, res)
}

// signSafe returns a well-formed token that the port must refuse.
func (t *tokenSpec) signSafe(now time.Time, pa portAuth) string {
	return t.sign(now)
}

func (w *authWorld) authAdmin(r *simkit.Rand) {
	run := w.run
	pa := w.admin
	entry := w.liveNodes()[r.Intn(len(w.liveNodes()))]
	path := adminPaths[r.Intn(len(adminPaths))]
	if len(w.nodes) > 1 && r.Intn(3) == 0 {
		other := w.nodes[(entry.idx+1)%len(w.nodes)]
		path += "?forward=" + []string{other.id, "nosuchnode", entry.id}[r.Intn(3)]
	}
	req, _ := http.NewRequest([]string{"GET", "GET", "POST"}[r.Intn(3)], fmt.Sprintf("http://%s:8002%s", entry.host, path), nil)
	now := time.Now()
	run.Probe("c09.admin_request")
	if !pa.enabled {
		if strings.HasPrefix(req.URL.Path, "/metrics") || strings.HasPrefix(req.URL.Path, "/debug/") {
			req.URL.Path = "/status/upstream/endpoints" // see below: process-dependent answers
		}
		resp, err := w.hc.Do(req)
		if err == nil {
			io.Copy(io.Discard, resp.Body)
			resp.Body.Close()
			if resp.StatusCode == 401 {
				run.Fail("C09.allow", "401-without-auth-configured", "admin port has no authentication configured but %s got 401", path)
			}
		}
		return
	}
	t := drawToken(r, pa)
	tok := t.sign(now)
	bad := (&tokenSpec{family: t.family, keyIdx: 1, aud: pa.audience, iss: pa.iss}).sign(now)
	presented, form := headerFor(req.Header, tok, t.form, bad)
	accept := presented && t.valid(pa)
	if accept && (strings.HasPrefix(req.URL.Path, "/metrics") || strings.HasPrefix(req.URL.Path, "/debug/")) {
		// the answers of these routes carry figures of the Go runtime that differ from
		// process to process, and with their size the schedule: they are asked for with
		// tokens that must be refused only (which is what the property is about)
		req.URL.Path = "/status/upstream/endpoints"
		path = req.URL.Path + "?" + req.URL.RawQuery
	}
	resp, err := w.hc.Do(req)
	if err != nil {
		return
	}
	body, _ := io.ReadAll(resp.Body)
	resp.Body.Close()
	tag := fmt.Sprintf("admin %s %s on %s token[%s, family=%s] header[%s] port[%+v]", req.Method, path, entry.id, t.desc, t.family, form, pa)
	run.Logf("%s -> %d", tag, resp.StatusCode)
	if !accept {
		if resp.StatusCode != 401 {
			run.Fail("C09.deny", "invalid-token-accepted", "%s: must be refused with 401, got %d", tag, resp.StatusCode)
		}
		if bytes.Contains(body, []byte("goroutine")) || bytes.Contains(body, []byte("piko_")) || bytes.Contains(body, []byte("proxy_addr")) {
			run.Fail("C09.deny", "invalid-token-got-content", "%s: the refusal carries handler output", tag)
		}
	} else if resp.StatusCode == 401 {
		run.Fail("C09.allow", "valid-token-refused", "%s: must be accepted, got 401 (%s)", tag, strings.TrimSpace(string(body)))
	} else {
		run.Probe("c09.accepted")
	}
}

// authListen: registering an upstream on the upstream port.
func (w *authWorld) authListen(r *simkit.Rand) {
	run := w.run
	pa := w.upstream
	k := testKeys()
	ep := []string{"l1", "l2", "e1"}[r.Intn(3)]
	now := time.Now()
	before := w.nodes[0].srv.ClusterState().LocalNode().Endpoints[ep]
	var tok, tenant, desc string
	accept := true
	permitted := true
	switch {
	case len(w.tenants) > 0:
		// tenants configured: the default key is disabled; a token is accepted only
		// under the tenant whose key signed it
		signer := r.Intn(len(w.tenants) + 1) // which key signs: tenant i, or (last) the default key
		present := r.Intn(len(w.tenants) + 2) // which tenant header: tenant i, none, unknown
		var eps []string
		eps, permitted = claimsFor(r, ep)
		ts := &tokenSpec{endpoints: eps}
		switch {
		case signer == 0:
			tok = ts.signWith(k.hmac[1], now)
		case signer == 1 && len(w.tenants) > 1:
			ts.family, ts.keyIdx = "rs", 1
			tok = ts.sign(now)
		default:
			if pa.enabled {
				d := drawValid(pa)
				d.endpoints = eps
				tok = d.sign(now)
			} else {
				tok = ts.signWith(k.hmac[0], now)
			}
			signer = -1
		}
		switch {
		case present < len(w.tenants):
			tenant = w.tenants[present]
		case present == len(w.tenants):
			tenant = ""
		default:
			tenant = "unknown-tenant"
		}
		accept = signer >= 0 && present == signer
		desc = fmt.Sprintf("signed by %d presented as tenant %q (tenants %v)", signer, tenant, w.tenants)
		run.Probe("c10.tenant_case")
	case pa.enabled:
		t := drawToken(r, pa)
		t.form = 0
		t.endpoints, permitted = claimsFor(r, ep)
		tok = t.sign(now)
		accept = t.valid(pa)
		desc = fmt.Sprintf("token[%s, family=%s, endpoints=%v] port[%+v]", t.desc, t.family, t.endpoints, pa)
		if r.Intn(8) == 0 {
			tenant, accept = "tenant0", false
			desc += " with a tenant header although no tenant is configured"
		}
	default:
		desc = "no authentication configured"
	}
	a, err := w.listenAuth(ep, "http", 0, tok, tenant)
	w.settle()
	after := w.nodes[0].srv.ClusterState().LocalNode().Endpoints[ep]
	tag := fmt.Sprintf("listen on %q: %s", ep, desc)
	run.Logf("%s -> err=%v registered %d->%d", tag, err, before, after)
	run.Probe("c09.listen_request")
	switch {
	case !accept || !permitted:
		rule, sig := "C09.deny", "invalid-token-registered-upstream"
		if accept && !permitted {
			rule, sig = "C10.confine", "listen-on-endpoint-outside-claim"
		}
		if !accept && len(w.tenants) > 0 {
			rule, sig = "C10.tenant", "token-accepted-under-wrong-tenant"
		}
		if err == nil || after != before {
			run.Fail(rule, sig, "%s: must be refused, but the listener %s and the endpoint count went %d -> %d", tag, map[bool]string{true: "connected", false: "failed"}[err == nil], before, after)
		} else if !strings.Contains(err.Error(), "401") {
			run.Fail(rule, sig+"-not-401", "%s: refused with %v instead of 401", tag, err)
		}
	default:
		if err != nil {
			run.Fail("C09.allow", "valid-token-refused", "%s: must be accepted: %v", tag, err)
		} else if after != before+1 {
			run.Fail("C16.while", "connected-but-not-registered", "%s: connected but the endpoint count went %d -> %d", tag, before, after)
		}
		run.Probe("c09.accepted")
	}
	if a != nil {
		a.shutdown()
		time.Sleep(200 * time.Millisecond)
		w.settle()
		if got := w.nodes[0].srv.ClusterState().LocalNode().Endpoints[ep]; got != before {
			run.Fail("C16.while", "closed-but-still-registered", "%s: the listener was shut down but the endpoint count is %d (was %d before it connected)", tag, got, before)
		}
	}
}

// authReuse: "unexpired" is judged at every presentation. A token that was
// accepted while it was valid is presented again, unchanged, to the same node
// and port after its expiry: nothing the server remembers about the earlier
// acceptance may stand in for the check (whatever disconnect-on-expiry says:
// that option is about connections that are already open).
func (w *authWorld) authReuse(r *simkit.Rand) {
	run := w.run
	entry := w.liveNodes()[r.Intn(len(w.liveNodes()))]
	port := r.Intn(3)
	pa := []portAuth{w.proxy, w.admin, w.upstream}[port]
	if !pa.enabled || (port == 2 && len(w.tenants) > 0) {
		return
	}
	t := drawValid(pa)
	t.exp = time.Duration(r.Range(2, 5)) * time.Second
	now := time.Now()
	tok := t.sign(now)
	exp := time.Unix(now.Add(t.exp).Unix(), 0) // one-second resolution
	uses := r.Range(1, 3)
	present := func(i int) (status int, delivered bool, err error) {
		switch port {
		case 0:
			rq := w.buildReq(entry.idx, "e1", 0)
			rq.Header.Set("Authorization", "Bearer "+tok)
			res := w.do(rq)
			w.mu.Lock()
			delivered = len(w.reqs[rq.ID]) > 0
			w.mu.Unlock()
			return res.Status, delivered, res.Err
		case 1:
			req, _ := http.NewRequest("GET", fmt.Sprintf("http://%s:8002%s", entry.host, []string{"/status/cluster/nodes", "/ready", "/health"}[i%3]), nil) // (not /metrics: the Go collector's figures differ from process to process, and with them the size of the answer and the schedule)
			req.Header.Set("Authorization", "Bearer "+tok)
			resp, err := w.hc.Do(req)
			if err != nil {
				return 0, false, err
			}
			body, _ := io.ReadAll(resp.Body)
			resp.Body.Close()
			return resp.StatusCode, bytes.Contains(body, []byte("proxy_addr")), nil
		default:
			ep := "reuse-l"
			before := w.nodes[entry.idx].srv.ClusterState().LocalNode().Endpoints[ep]
			a, err := w.listenAuth(ep, "http", entry.idx, tok, "")
			w.settle()
			after := w.nodes[entry.idx].srv.ClusterState().LocalNode().Endpoints[ep]
			if a != nil {
				a.shutdown()
				time.Sleep(200 * time.Millisecond)
				w.settle()
			}
			if err != nil {
				st := 0
				if strings.Contains(err.Error(), "401") {
					st = 401
				}
				return st, after != before, nil
			}
			return 200, after != before, nil
		}
	}
	tag := fmt.Sprintf("token[valid, exp +%v, family=%s] on %s %s port[%+v]", t.exp, t.family, entry.id, []string{"proxy", "admin", "upstream"}[port], pa)
	for i := 0; i < uses; i++ {
		if time.Until(exp) < 300*time.Millisecond {
			break
		}
		st, _, err := present(i)
		run.Logf("reuse: %s use %d -> %d err=%v", tag, i, st, err)
		if err != nil {
			return
		}
		if st == 401 && time.Until(exp) > 0 {
			run.Fail("C09.allow", "valid-token-refused", "%s: refused %v before its expiry", tag, time.Until(exp))
			return
		}
	}
	if d := time.Until(exp) + time.Duration(r.Range(1, 2500))*time.Millisecond; d > 0 {
		time.Sleep(d)
	}
	late := time.Since(exp)
	st, delivered, err := present(uses)
	run.Logf("reuse: %s presented again %v after the expiry -> %d delivered=%v err=%v", tag, late, st, delivered, err)
	if err != nil {
		return
	}
	if st != 401 {
		run.Fail("C09.deny", "expired-token-accepted-after-earlier-use", "%s: accepted while valid, presented again %v after its expiry: must be refused with 401, got %d", tag, late, st)
	}
	if delivered {
		run.Fail("C09.deny", "expired-token-ran-route-after-earlier-use", "%s: presented again %v after its expiry and the route ran", tag, late)
	}
	run.Probe("c09.reuse_after_expiry_refused")
}

// settle waits until nothing moves any more. With the execution-time fault on
// (stall_den), a goroutine that is "about to" finish a registration may be
// asleep for a few milliseconds, which synctest.Wait alone takes for rest.
func (w *authWorld) settle() {
	if w.run.Case.Cfg["stall_den"] > 0 {
		time.Sleep(300 * time.Millisecond)
	}
	synctest.Wait()
}

// authExpiry: a connection authenticated with an expiring token is closed by
// the server at the expiry and not before, unless disconnect-on-expiry is disabled.
func (w *authWorld) authExpiry(r *simkit.Rand) {
	run := w.run
	pa := w.upstream
	if !pa.enabled || len(w.tenants) > 0 {
		return
	}
	ep := "x1"
	t := drawValid(pa)
	ttl := time.Duration(r.Range(2, 40)) * time.Second
	t.exp = ttl
	now := time.Now()
	// JWT expiry has one-second resolution
	exp := time.Unix(now.Add(ttl).Unix(), 0)
	a, err := w.listenAuth(ep, "http", 0, t.sign(now), "")
	if err != nil {
		run.Fail("C09.allow", "valid-token-refused", "listen with a token expiring in %v: %v", ttl, err)
		return
	}
	defer a.shutdown()
	count := func() int { w.settle(); return w.nodes[0].srv.ClusterState().LocalNode().Endpoints[ep] }
	if count() != 1 {
		run.Fail("C16.while", "connected-but-not-registered", "listener with an expiring token is connected but not registered")
		return
	}
	time.Sleep(time.Until(exp) - 600*time.Millisecond)
	if n := count(); n != 1 && time.Now().Before(exp) {
		run.Fail("C16.expiry", "closed-before-expiry", "the upstream authenticated with a token expiring at +%v was deregistered %v before the expiry", ttl, time.Until(exp))
		return
	}
	time.Sleep(time.Until(exp) + 500*time.Millisecond)
	n := count()
	if pa.noDisconnect {
		if n != 1 {
			run.Fail("C16.expiry", "closed-although-disabled", "disconnect-on-expiry is disabled but the upstream was deregistered at the token expiry")
		}
		run.Probe("c16.expiry_disabled_checked")
		return
	}
	if n != 0 {
		run.Fail("C16.expiry", "not-closed-at-expiry", "500ms after the token expiry (+%v) the upstream is still registered", ttl)
	}
	run.Probe("c16.expiry_checked")
}

// authExpiryEdge: the listener connects a hair before its token expires. It is
// either refused (the expiry had been reached when the server looked) or
// registered and then closed at the expiry like any other - also when the
// expiry passes while the server is still setting the connection up.
func (w *authWorld) authExpiryEdge(r *simkit.Rand) {
	run := w.run
	pa := w.upstream
	if !pa.enabled || len(w.tenants) > 0 {
		return
	}
	ep := "x2"
	t := drawValid(pa)
	now := time.Now()
	exp := time.Unix(now.Unix()+2, 0) // JWT expiry has one-second resolution
	t.exp = exp.Sub(now)
	tok := t.sign(now)
	hair := time.Duration(r.Range(10, 3000)) * time.Microsecond
	if r.Intn(4) == 0 {
		hair = time.Duration(r.Range(1, 50)) * time.Millisecond
	}
	time.Sleep(time.Until(exp) - hair)
	before := w.nodes[0].srv.ClusterState().LocalNode().Endpoints[ep]
	a, err := w.listenAuth(ep, "http", 0, tok, "")
	if err != nil {
		if time.Now().Before(exp) {
			run.Fail("C09.allow", "valid-token-refused", "listen %v before the token's expiry was refused before the expiry: %v", hair, err)
		}
		run.Probe("c16.expiry_edge_refused")
		return
	}
	defer a.shutdown()
	run.Probe("c16.expiry_edge_accepted")
	time.Sleep(time.Until(exp) + 500*time.Millisecond)
	w.settle()
	n := w.nodes[0].srv.ClusterState().LocalNode().Endpoints[ep] - before
	switch {
	case pa.noDisconnect && n != 1:
		run.Fail("C16.expiry", "closed-although-disabled", "disconnect-on-expiry is disabled but the upstream that connected %v before its token's expiry was deregistered", hair)
	case !pa.noDisconnect && n != 0:
		run.Fail("C16.expiry", "not-closed-at-expiry", "an upstream that connected %v before its token's expiry is still registered 500ms after the expiry", hair)
	}
	run.Probe("c16.expiry_edge_checked")
}

// authShutdown: a node with upstreams authenticated by tokens that carry an
// expiry shuts down gracefully: it must withdraw them like any other upstream.
func (w *authWorld) authShutdown(r *simkit.Rand) {
	run := w.run
	pa := w.upstream
	if !pa.enabled || len(w.tenants) > 0 {
		return
	}
	n := w.nodes[0]
	t := drawValid(pa)
	t.exp = time.Duration(r.Range(600, 7200)) * time.Second
	if _, err := w.listenAuth("x2", "http", 0, t.sign(time.Now()), ""); err != nil {
		run.Fail("C09.allow", "valid-token-refused", "listen with a token expiring in %v: %v", t.exp, err)
		return
	}
	w.settle()
	run.Logf("%s graceful shutdown with an upstream authenticated by an expiring token", n.id)
	n.alive = false
	t0 := time.Now()
	done := make(chan struct{})
	go func() {
		simnet.SetHost(n.host)
		n.srv.Shutdown()
		close(done)
	}()
	<-done
	n.stopped = true
	w.settle()
	if took := time.Since(t0); took > n.conf.GracePeriod+500*time.Millisecond {
		run.Fail("C18.grace", "shutdown-overran-grace-period", "%s took %v to shut down, grace period %v", n.id, took, n.conf.GracePeriod)
	}
	if own := n.srv.ClusterState().LocalNode().Endpoints; len(own) != 0 {
		run.Fail("C18.withdraw", "still-advertising-after-shutdown", "%s has shut down but still advertises [%s] (upstreams authenticated with expiring tokens)", n.id, epString(own))
	}
	run.Probe("c18.shutdown_with_expiring_tokens")
}

func init() {
	for _, p := range []string{"C09", "C10"} {
		simkit.Register(&simkit.Prop{ID: p, Gen: genAuth(p), Exec: execAuth, MaxWall: 120 * time.Second})
	}
	// C18 also gets the auth family (shutdown with expiring-token upstreams)
	lossGen, authGen := genLoss, genAuth("C16")
	simkit.Register(&simkit.Prop{ID: "C18", MaxWall: 180 * time.Second, Exec: func(run *simkit.Run) {
		if run.Case.Family == "h3.auth" {
			execAuth(run)
		} else {
			execLoss(run)
		}
	}, Gen: func(rng *simkit.Rand, tier string, idx int) *simkit.Case {
		if idx%5 == 4 {
			return authGen(rng, tier, idx)
		}
		return lossGen(rng, tier, idx)
	}})
	// C16: connection-lifecycle family on the cluster engine + token expiry family
	cl, au := genCluster("C16"), genAuth("C16")
	clExec := execCluster("C16")
	simkit.Register(&simkit.Prop{ID: "C16", MaxWall: 120 * time.Second, Exec: func(run *simkit.Run) {
		if run.Case.Family == "h3.auth" {
			execAuth(run)
		} else {
			clExec(run)
		}
	}, Gen: func(rng *simkit.Rand, tier string, idx int) *simkit.Case {
		if idx%3 == 2 {
			return au(rng, tier, idx)
		}
		return cl(rng, tier, idx)
	}})
}
