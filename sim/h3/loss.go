package h3

import (
	"fmt"
	"time"

	"github.com/andydunstall/piko/server/cluster"
	"github.com/andydunstall/piko/verifsim/simkit"
	"github.com/andydunstall/piko/verifsim/simnet"
)

// C18: losing a node. Each node in turn is lost - gracefully (Shutdown) or
// killed (reset or black-holed) - idle, with upstreams attached, with requests
// in flight; listeners are pointed at a load-balancer name that resolves to a
// serving node.

func genLoss(rng *simkit.Rand, tier string, idx int) *simkit.Case {
	c := &simkit.Case{Family: "h3.loss", Cfg: map[string]int64{}}
	c.Cfg["nodes"] = int64(rng.Range(2, 4))
	c.Cfg["interval_ms"] = int64([]int{50, 100}[rng.Intn(2)])
	c.Cfg["apps"] = int64(rng.Range(0, 6))
	c.Cfg["pkt_drop"] = int64([]int{0, 0, 50}[rng.Intn(3)])
	c.Cfg["yield_den"] = []int64{0, 64, 8, 2}[rng.Intn(4)]
	c.Cfg["stall_den"] = []int64{0, 0, 200}[rng.Intn(3)] // execution-time fault in a third of the runs
	c.Cfg["stall_max_us"] = 500
	c.Cfg["net_quantum_us"] = []int64{0, 1000}[rng.Intn(2)]
	c.Cfg["stream_delay_us"] = []int64{0, 200, 2000}[rng.Intn(3)]
	c.Cfg["grace_ms"] = int64([]int{2000, 10000}[rng.Intn(2)])
	n := rng.Range(1, 2)
	for i := 0; i < n; i++ {
		c.Script = append(c.Script,
			simkit.Op{K: "traffic", A: rng.Intn(1 << 16), B: rng.Intn(1 << 16), C: rng.Intn(6)},
			simkit.Op{K: "lose", A: rng.Intn(1 << 16), B: rng.Intn(3), C: rng.Intn(1 << 16), D: int64(time.Duration(rng.Range(0, 300)) * time.Millisecond)},
			simkit.Op{K: "wait", D: int64(time.Duration(rng.Range(0, 5000)) * time.Millisecond)})
		if rng.Intn(3) == 0 {
			// rolling restart: a new instance comes up at the address of the node that left
			c.Script = append(c.Script, simkit.Op{K: "restart", D: int64(time.Duration(rng.Range(0, 3000)) * time.Millisecond)})
		}
	}
	return c
}

func execLoss(run *simkit.Run) {
	c := run.Case
	w := &cluster3{world: newWorld(run, netCfg(c)), prop: "C18", slowVia: map[string]bool{}}
	defer w.teardown()
	interval := time.Duration(c.Int("interval_ms")) * time.Millisecond
	grace := time.Duration(c.Int("grace_ms")) * time.Millisecond
	for i := 0; i < c.Int("nodes"); i++ {
		w.startNode(nodeOpts{interval: interval, grace: grace})
		if run.Stop() {
			return
		}
	}
	guard := &hopGuard{w: w, counts: map[string]int{}}
	w.nw.OnFirstWrite = guard.onFirstWrite
	eps := []string{"e1", "e10", "api"}
	for i := 0; i < c.Int("apps"); i++ {
		// through the load balancer: the listener may land on any serving node
		if _, err := w.listen(eps[i%len(eps)], "http", -1, ""); err != nil {
			run.Fail("SIM.setup", "listen", "%v", err)
			return
		}
	}
	if ok, why := w.waitSettled(300, true); !ok {
		run.Fail("SIM.setup", "not-settled", "%s", why)
		return
	}
	for i, op := range c.Script {
		if run.Stop() {
			break
		}
		run.Step = i
		run.Steps++
		switch op.K {
		case "traffic":
			// requests in flight while the node goes away; slow answers keep them open
			for k := 0; k < op.C; k++ {
				live := w.liveNodes()
				entry := live[(op.A+k)%len(live)]
				if k%2 == 1 && i+1 < len(c.Script) && c.Script[i+1].K == "lose" {
					// through the node that is about to go
					entry = live[c.Script[i+1].A%len(live)]
				}
				rq := w.buildReq(entry.idx, eps[(op.B+k)%len(eps)], 0)
				switch {
				case k%2 == 0:
					w.mu.Lock()
					w.specs[rq.ID] = &respSpec{Status: 200, Body: []byte("slow"), Delay: time.Duration(100+200*k) * time.Millisecond}
					w.mu.Unlock()
				case k%4 == 1:
					// an answer that takes longer than the whole grace period
					w.mu.Lock()
					w.specs[rq.ID] = &respSpec{Status: 200, Body: []byte("very slow"), Delay: grace + time.Duration(1+k)*time.Second}
					w.mu.Unlock()
					run.Probe("c18.request_slower_than_grace")
					w.slowVia[entry.id] = true
				}
				w.requests++
				w.wg.Add(1)
				go func() {
					defer w.wg.Done()
					res := w.do(rq)
					if res.Err == nil {
						w.judgeRouting(rq, res)
					}
					run.Probe("c18.inflight_request")
				}()
			}
		case "lose":
			live := w.liveNodes()
			if len(live) < 2 {
				continue
			}
			time.Sleep(time.Duration(op.D))
			w.lose(live[op.A%len(live)], op.B, grace)
		case "wait":
			time.Sleep(time.Duration(op.D))
		case "restart":
			w.restart(interval, grace, time.Duration(op.D))
		}
	}
	w.wg.Wait()
	if run.ProbeCount("c18.node_lost") > 0 {
		run.Probe("nontrivial")
	}
	run.Summary = fmt.Sprintf("loss nodes=%d apps=%d interval=%v grace=%v drop=%d‰ first=%v", len(w.nodes), c.Int("apps"), interval, grace, c.Int("pkt_drop"), firstOps(c.Script, 4))
}

func (w *cluster3) lose(n *node, mode int, grace time.Duration) {
	run := w.run
	hadApps := n.srv.ClusterState().LocalNode().Endpoints
	nApps := 0
	for _, c := range hadApps {
		nApps += c
	}
	run.Probe("c18.node_lost")
	if nApps > 0 {
		run.Probe("c18.lost_node_had_upstreams")
	}
	blackhole := false
	switch mode {
	case 0:
		run.Logf("%s graceful shutdown (advertising [%s])", n.id, epString(hadApps))
		n.alive = false
		w.setLB()
		t0 := time.Now()
		done := make(chan struct{})
		go func() {
			simnet.SetHost(n.host)
			n.srv.Shutdown()
			close(done)
		}()
		// mid-shutdown: the upstream connections are closed first (so that no
		// other node keeps routing here while requests drain); one second in,
		// a node that is still shutting down advertises nothing any more
		observed := make(chan struct{})
		go func() {
			defer close(observed)
			select {
			case <-done:
				return
			case <-time.After(time.Second):
			}
			if own := n.srv.ClusterState().LocalNode().Endpoints; len(own) != 0 {
				run.Fail("C18.withdraw", "still-advertising-mid-shutdown", "%s has been shutting down for 1s (requests draining) and still advertises [%s]", n.id, epString(own))
			}
			run.Probe("c18.mid_shutdown_observed")
		}()
		<-done
		<-observed
		n.stopped = true
		took := time.Since(t0)
		run.Logf("%s shutdown returned after %v", n.id, took)
		if took > grace+500*time.Millisecond {
			run.Fail("C18.grace", "shutdown-overran-grace-period", "%s took %v to shut down, grace period %v", n.id, took, grace)
		}
		w.quiesce()
		if own := n.srv.ClusterState().LocalNode().Endpoints; len(own) != 0 {
			run.Fail("C18.withdraw", "still-advertising-after-shutdown", "%s has shut down but still advertises [%s]", n.id, epString(own))
		}
		// the nodes it notified stop routing to it at once
		notified := 0
		for _, o := range w.liveNodes() {
			if t := w.tableOf(o)[n.id]; t != nil && t.Status == cluster.NodeStatusLeft {
				notified++
			}
		}
		if notified == 0 && w.nw.Config().PktDrop == 0 {
			sig, extra := "nobody-notified", ""
			if w.slowVia[n.id] && took >= grace-100*time.Millisecond {
				// finding F5: draining used up the grace period, Leave got an expired context
				sig, extra = "nobody-notified-after-drain-used-the-grace-period", fmt.Sprintf(" (a request slower than the grace period was in flight through its proxy; shutdown took %v)", took)
			}
			run.Fail("C18.notified", sig, "%s shut down gracefully but no serving node lists it as left%s", n.id, extra)
		}
		run.Probe("c18.graceful")
	default:
		blackhole = mode == 2
		run.Logf("%s killed (blackhole=%v, advertising [%s])", n.id, blackhole, epString(hadApps))
		n.alive, n.killed = false, true
		w.nw.Crash(n.host, !blackhole)
		w.setLB()
		run.Probe("c18.killed")
	}
	// ---- every survivor stops listing it as an active advertiser
	bound := 150
	if mode != 0 {
		bound = 400 // unreachable after ~20 mean inter-arrival times
	}
	okAll := false
	for i := 0; i < bound/5; i++ {
		time.Sleep(5 * w.intv)
		w.quiesce()
		okAll = true
		for _, o := range w.liveNodes() {
			if t := w.tableOf(o)[n.id]; t != nil && t.Status == cluster.NodeStatusActive && len(t.Endpoints) > 0 {
				okAll = false
			}
		}
		if okAll {
			break
		}
	}
	if !okAll && mode == 0 {
		run.Fail("C18.notified", "still-active-somewhere", "%d gossip intervals after %s left, some serving node still lists it as an active advertiser", bound, n.id)
	}
	// ---- listeners reconnect to a survivor
	detect := 20 * time.Second
	if blackhole {
		detect = 100 * time.Second // the client notices through its session keep-alive
	}
	deadline := time.Now().Add(detect)
	reok, why := false, ""
	for time.Now().Before(deadline) {
		w.quiesce()
		if reok, why = w.advertisedMatchesApps(); reok {
			break
		}
		time.Sleep(500 * time.Millisecond)
	}
	if !reok {
		run.Fail("C18.reconnect", "listener-not-reconnected", "%v after %s was lost (mode %d) the upstream listeners are not all registered on the survivors: %s", detect, n.id, mode, why)
		return
	}
	if nApps > 0 {
		run.Probe("c18.listeners_reconnected")
	}
	// ---- once routing information settles, requests succeed from every survivor
	settled, swhy := w.waitSettled(500, true)
	if !settled {
		// a killed node that keeps being re-learnt (finding F2) can keep the tables from settling
		run.Probe("c18.unsettled_after_loss")
		run.Logf("not settled after loss: %s", swhy)
	}
	w.checkServedEverywhere(n, "losing")
	run.Probe("c18.recovered")
}

// restart: a new server instance (new node id, as piko generates one per start)
// comes up at the address of a node that shut down gracefully - a rolling
// restart. It joins through the survivors; afterwards every serving node,
// the new one included, serves every endpoint that has an upstream.
func (w *cluster3) restart(interval, grace, after time.Duration) {
	run := w.run
	var old *node
	for _, n := range w.nodes {
		if n.stopped && !n.killed && !n.replaced {
			old = n
		}
	}
	if old == nil || len(w.liveNodes()) == 0 {
		return
	}
	time.Sleep(after)
	old.replaced = true
	nn := w.startNode(nodeOpts{interval: interval, grace: grace, host: old.host})
	if run.Stop() || !nn.alive {
		return
	}
	run.Logf("%s started at the address of %s (%s)", nn.id, old.id, old.host)
	run.Probe("c18.restarted_at_same_address")
	if settled, why := w.waitSettled(600, true); !settled {
		run.Probe("c18.unsettled_after_restart")
		run.Logf("not settled after restart: %s", why)
	}
	w.checkServedEverywhere(old, "replacing")
	// the instance that left stays departed: nobody lists it as an active advertiser again
	for _, o := range w.liveNodes() {
		if t := w.tableOf(o)[old.id]; t != nil && t.Status == cluster.NodeStatusActive {
			run.Fail("C18.notified", "departed-instance-active-again", "%s lists %s, which shut down gracefully and was replaced at its address by %s, as active", o.id, old.id, nn.id)
		}
	}
}

// checkServedEverywhere: requests for every endpoint that has an upstream
// succeed from every serving node (a few attempts, ten gossip intervals apart).
func (w *cluster3) checkServedEverywhere(n *node, what string) {
	run := w.run
	for _, entry := range w.liveNodes() {
		for _, ep := range []string{"e1", "e10", "api"} {
			if len(w.liveApps(ep)) == 0 {
				continue
			}
			okReq, sawDead := false, false
			status := 0
			for attempt := 0; attempt < 5 && !okReq; attempt++ {
				if t := w.tableOf(entry)[n.id]; t != nil && t.Status == cluster.NodeStatusActive && t.Endpoints[ep] > 0 {
					sawDead = true
				}
				rq := w.buildReq(entry.idx, ep, 0)
				w.requests++
				res := w.do(rq)
				if res.Err == nil {
					w.judgeRouting(rq, res)
					status = res.Status
					okReq = res.Status == 200
				}
				if !okReq {
					time.Sleep(10 * w.intv)
				}
			}
			if !okReq {
				sig := "not-served-after-loss"
				if sawDead && n.killed {
					sig = "routed-to-relearnt-dead-node"
				}
				run.Fail("C18.recover", sig, "after %s %s, requests for %q via %s still fail (last status %d) although %d upstreams are connected", what, n.id, ep, entry.id, status, len(w.liveApps(ep)))
			}
		}
	}
}


