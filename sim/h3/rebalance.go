package h3

import (
	"context"
	"fmt"
	"math"
	"net/url"
	"testing/synctest"
	"time"

	"github.com/andydunstall/piko/client"
	"github.com/andydunstall/piko/pkg/log"
	"github.com/andydunstall/piko/server/cluster"
	"github.com/andydunstall/piko/server/config"
	"github.com/andydunstall/piko/server/upstream"
	"github.com/andydunstall/piko/verifsim/simkit"
	"github.com/andydunstall/piko/verifsim/simnet"
)

// C19: rebalancing. The real upstream.Server (registry, sessions, Rebalance,
// shedSessions) with real client listeners over the simulated network; the
// rest of the cluster (active / unreachable / left nodes with their connection
// counts) is placed in the real cluster.State. The arithmetic is input space,
// said plainly; the simulation contributes real sessions, the quiescent
// counting of what one step closed, and (wiring family) the one-second ticker
// of a complete node.

func genRebalance(rng *simkit.Rand, tier string, idx int) *simkit.Case {
	c := &simkit.Case{Family: "h3.rebalance", Cfg: map[string]int64{}}
	c.Cfg["threshold_pm"] = int64([]int{50, 100, 200, 500, 1000, 2000}[rng.Intn(6)])
	c.Cfg["rate_pm"] = int64([]int{5, 50, 200, 250, 500, 750, 1000}[rng.Intn(7)])
	c.Cfg["min"] = int64([]int{0, 1, 3, 10, 50}[rng.Intn(5)])
	c.Cfg["local"] = int64(rng.Range(0, 24))
	c.Cfg["yield_den"] = []int64{0, 8}[rng.Intn(2)]
	n := rng.Range(0, 5)
	for i := 0; i < n; i++ {
		c.Script = append(c.Script, simkit.Op{K: "node", A: rng.Intn(3), B: rng.Range(0, 40), C: rng.Intn(3)})
	}
	for i, m := 0, rng.Range(1, 4); i < m; i++ {
		c.Script = append(c.Script, simkit.Op{K: "rebalance"})
		if rng.Intn(2) == 0 {
			c.Script = append(c.Script, simkit.Op{K: "status", A: rng.Intn(8), B: rng.Intn(3)})
		}
	}
	if idx%6 == 5 {
		c.Family = "h3.rebalance-wiring"
		c.Cfg["threshold_pm"] = []int64{0, 0, 200}[rng.Intn(3)]
		c.Cfg["min"] = 1
		c.Cfg["local"] = int64(rng.Range(3, 10))
		c.Script = nil
	}
	return c
}

func execRebalance(run *simkit.Run) {
	c := run.Case
	if c.Family == "h3.rebalance-wiring" {
		execRebalanceWiring(run)
		return
	}
	nw := simnet.Reset(run, simnet.Config{StreamDelay: time.Millisecond})
	_ = nw
	conf := config.UpstreamConfig{BindAddr: "10.0.0.1:8001", Rebalance: config.RebalanceConfig{
		Threshold: float64(c.Int("threshold_pm")) / 1000, ShedRate: float64(c.Int("rate_pm")) / 1000, MinConns: uint(c.Int("min"))}}
	state := cluster.NewState(&cluster.Node{ID: "n0", ProxyAddr: "10.0.0.1:8000", AdminAddr: "10.0.0.1:8002"}, log.NewNopLogger())
	mgr := upstream.NewLoadBalancedManager(state, nil)
	srv := upstream.NewServer(mgr, nil, nil, state, conf, log.NewNopLogger())
	ln, err := simnet.Listen("tcp", conf.BindAddr)
	if err != nil {
		run.Fail("SIM.setup", "listen", "%v", err)
		return
	}
	go func() { simnet.SetHost("10.0.0.1"); _ = srv.Serve(ln) }()
	ctx, cancel := context.WithCancel(context.Background())
	var lns []client.Listener
	defer func() {
		cancel()
		for _, l := range lns {
			l.Shutdown()
		}
		sctx, scancel := context.WithTimeout(context.Background(), time.Second)
		_ = srv.Shutdown(sctx)
		scancel()
	}()
	local := c.Int("local")
	for i := 0; i < local; i++ {
		u := &client.Upstream{URL: &url.URL{Scheme: "http", Host: conf.BindAddr}, MinReconnectBackoff: 5 * time.Second, MaxReconnectBackoff: 5 * time.Second}
		l, err := u.Listen(ctx, fmt.Sprintf("ep%d", i%4))
		if err != nil {
			run.Fail("SIM.setup", "listen", "%v", err)
			return
		}
		lns = append(lns, l)
		go func() {
			for {
				if _, err := l.Accept(); err != nil {
					return
				}
			}
		}()
	}
	time.Sleep(50 * time.Millisecond)
	synctest.Wait()
	if got := srv.VerifOpenSessions(); got != local {
		run.Fail("SIM.setup", "sessions", "%d sessions open, %d listeners", got, local)
		return
	}
	type remote struct {
		id     string
		status cluster.NodeStatus
		conns  int
	}
	var remotes []*remote
	statuses := []cluster.NodeStatus{cluster.NodeStatusActive, cluster.NodeStatusUnreachable, cluster.NodeStatusLeft}
	for i, op := range c.Script {
		if run.Stop() {
			break
		}
		run.Step = i
		run.Steps++
		switch op.K {
		case "node":
			r := &remote{id: fmt.Sprintf("r%d", len(remotes)+1), status: statuses[op.A%3], conns: op.B}
			eps := map[string]int{}
			for k := 0; k < r.conns; k++ {
				eps[fmt.Sprintf("ep%d", k%(1+op.C))]++
			}
			state.AddNode(&cluster.Node{ID: r.id, Status: r.status, ProxyAddr: "10.0.1.1:8000", AdminAddr: "10.0.1.1:8002", Endpoints: eps})
			remotes = append(remotes, r)
			run.Logf("remote %s %s with %d connections", r.id, r.status, r.conns)
		case "status":
			if len(remotes) > 0 {
				r := remotes[op.A%len(remotes)]
				r.status = statuses[op.B%3]
				state.UpdateRemoteStatus(r.id, r.status)
				run.Logf("remote %s becomes %s", r.id, r.status)
			}
		case "rebalance":
			synctest.Wait()
			open := srv.VerifOpenSessions()
			// the specification: average to whole connections over active nodes (the local node is active)
			total, nodes := open, 1
			for _, r := range remotes {
				if r.status == cluster.NodeStatusActive {
					total += r.conns
					nodes++
				}
			}
			avg := total / nodes
			allowed := 0
			guard := len(remotes) > 0 && open >= 1 && open >= c.Int("min")
			if guard && open > avg {
				exceeds := avg == 0 || float64(open-avg)/float64(avg) >= conf.Rebalance.Threshold
				if exceeds {
					allowed = int(math.Ceil(conf.Rebalance.ShedRate * float64(avg)))
					if allowed < 1 {
						allowed = 1
					}
					if allowed > open {
						allowed = open
					}
				}
			}
			srv.Rebalance()
			synctest.Wait()
			after := srv.VerifOpenSessions()
			closed := open - after
			run.Logf("rebalance: open=%d avg=%d (over %d active nodes) threshold=%.2f rate=%.3f min=%d -> closed %d (allowed <= %d)", open, avg, nodes, conf.Rebalance.Threshold, conf.Rebalance.ShedRate, c.Int("min"), closed, allowed)
			switch {
			case closed < 0:
				run.Fail("SIM.setup", "sessions-grew", "sessions grew during a rebalance step")
			case closed > 0 && open <= avg:
				run.Fail("C19.below", "shed-at-or-below-average", "a node with %d connections, cluster average %d, closed %d", open, avg, closed)
			case closed > 0 && allowed == 0:
				run.Fail("C19.guard", "shed-without-imbalance", "closed %d connections although the conditions for shedding do not hold (open=%d avg=%d other nodes=%d min=%d threshold=%.2f)", closed, open, avg, len(remotes), c.Int("min"), conf.Rebalance.Threshold)
			case closed > allowed:
				run.Fail("C19.cap", "shed-more-than-rate", "closed %d connections in one step; at most max(1, ceil(%.3f x %d)) = %d allowed (open=%d)", closed, conf.Rebalance.ShedRate, avg, allowed, open)
			}
			if closed > 0 {
				run.Probe("c19.shed")
			}
			for _, r := range remotes {
				if r.status != cluster.NodeStatusActive {
					run.Probe("c19.non_active_node_present")
					break
				}
			}
			run.Probe("c19.step_checked")
			// the listeners that were shed reconnect (5s back-off): wait for it
			time.Sleep(6 * time.Second)
		}
	}
	if run.ProbeCount("c19.step_checked") > 0 {
		run.Probe("nontrivial")
	}
	run.Summary = fmt.Sprintf("rebalance threshold=%.2f rate=%.3f min=%d local=%d remotes=%d", conf.Rebalance.Threshold, conf.Rebalance.ShedRate, c.Int("min"), local, len(remotes))
}

// execRebalanceWiring: complete nodes; with threshold 0 nothing is ever shed,
// however imbalanced; with a threshold, no more than the cap per second.
func execRebalanceWiring(run *simkit.Run) {
	c := run.Case
	w := &cluster3{world: newWorld(run, simnet.Config{PktDelay: 200 * time.Microsecond, StreamDelay: 200 * time.Microsecond}), prop: "C19"}
	defer w.teardown()
	thr := float64(c.Int("threshold_pm")) / 1000
	rate := float64(c.Int("rate_pm")) / 1000
	for i := 0; i < 2; i++ {
		w.startNode(nodeOpts{interval: 50 * time.Millisecond, tweak: func(_ int, conf *config.Config) {
			conf.Upstream.Rebalance = config.RebalanceConfig{Threshold: thr, ShedRate: rate, MinConns: 1}
		}})
		if run.Stop() {
			return
		}
	}
	local := c.Int("local")
	for i := 0; i < local; i++ {
		if _, err := w.listen(fmt.Sprintf("e%d", i%3), "http", 0, ""); err != nil {
			run.Fail("SIM.setup", "listen", "%v", err)
			return
		}
	}
	prev := local
	for s := 0; s < 12; s++ {
		time.Sleep(time.Second)
		synctest.Wait()
		own := 0
		for _, n := range w.nodes[0].srv.ClusterState().LocalNode().Endpoints {
			own += n
		}
		// pinned listeners reconnect to node 0, so the count can also grow back
		if thr == 0 && own < local {
			run.Fail("C19.guard", "shed-although-disabled", "rebalancing is disabled (threshold 0) but node n0 went from %d to %d connections", local, own)
			return
		}
		if own < prev {
			avg := (own + 0) / 2
			capN := int(math.Ceil(rate * float64((prev+0)/2)))
			if capN < 1 {
				capN = 1
			}
			_ = avg
			if prev-own > capN+1 { // the sampling second may straddle two ticks
				run.Fail("C19.cap", "wiring-shed-more-than-rate", "node n0 lost %d connections within one second, cap %d", prev-own, capN)
			}
			run.Probe("c19.wiring_shed")
		}
		prev = own
	}
	run.Probe("c19.wiring_checked")
	run.Probe("nontrivial")
	run.Summary = fmt.Sprintf("rebalance wiring threshold=%.2f rate=%.3f local=%d", thr, rate, local)
}

func init() {
	simkit.Register(&simkit.Prop{ID: "C19", Gen: genRebalance, Exec: execRebalance, MaxWall: 120 * time.Second})
}
