package h3

import (
	"context"
	"encoding/json"
	"fmt"
	"io"
	"net/http"
	"net/url"
	"sort"
	"strings"
	"sync"
	"time"

	"github.com/andydunstall/piko/client"
	"github.com/andydunstall/piko/pkg/log"
	"github.com/andydunstall/piko/server"
	"github.com/andydunstall/piko/server/config"
	"github.com/andydunstall/piko/verifsim/simkit"
	"github.com/andydunstall/piko/verifsim/simnet"
)

// SMOKE is the kernel's determinism self-test workload: three complete
// server.Server, four real listeners, concurrent requests, a graceful
// shutdown, expiry. It has no oracle; its event log and scheduler hash are
// compared across processes by `verif selftest`.
func init() {
	simkit.Register(&simkit.Prop{
		ID: "SMOKE",
		Gen: func(rng *simkit.Rand, tier string, idx int) *simkit.Case {
			return &simkit.Case{Family: "smoke", Cfg: map[string]int64{
				"yield_den": []int64{0, 64, 8, 2}[rng.Intn(4)],
				"pkt_drop":  int64(rng.Intn(200)),
			}}
		},
		Exec: smokeExec,
	})
}

func mkconf(i int, join []string) *config.Config {
	conf := config.Default()
	ip := fmt.Sprintf("10.0.0.%d", i+1)
	conf.Proxy.BindAddr = ip + ":8000"
	conf.Upstream.BindAddr = ip + ":8001"
	conf.Admin.BindAddr = ip + ":8002"
	conf.Cluster.Gossip.BindAddr = ip + ":8003"
	conf.Cluster.NodeID = fmt.Sprintf("n%d", i)
	conf.Cluster.Join = join
	conf.Cluster.Gossip.Interval = 50 * time.Millisecond
	conf.GracePeriod = 10 * time.Second
	return conf
}

func smokeExec(run *simkit.Run) {
	nw := simnet.Reset(run, simnet.Config{
		PktDrop: run.Case.I64("pkt_drop"), PktDelay: time.Millisecond, PktJitter: 2 * time.Millisecond,
	})
	nw.MarkGossipPort(8003)
	tr := &http.Transport{DialContext: simnet.DialContext, DisableKeepAlives: true}
	http.DefaultTransport = tr
	hc := &http.Client{Transport: tr}

	var nodes []*server.Server
	var join []string
	for i := 0; i < 3; i++ {
		done := make(chan *server.Server)
		go func() {
			simnet.SetHost(fmt.Sprintf("10.0.0.%d", i+1))
			s, err := server.NewServer(mkconf(i, join), log.NewNopLogger())
			if err != nil {
				run.Fail("SIM.setup", "newserver", "%v", err)
				done <- nil
				return
			}
			if err := s.Start(); err != nil {
				run.Fail("SIM.setup", "start", "%v", err)
			}
			done <- s
		}()
		s := <-done
		if s == nil {
			return
		}
		nodes = append(nodes, s)
		join = append(join, fmt.Sprintf("10.0.0.%d:8003", i+1))
		run.Logf("started n%d", i)
	}
	ctx, cancel := context.WithCancel(context.Background())
	defer cancel()
	type up struct {
		ln  client.Listener
		srv *http.Server
	}
	var ups []up
	for i, ep := range []string{"e0", "e1", "e1", "e2"} {
		node := i % 3
		u := &client.Upstream{URL: &url.URL{Scheme: "http", Host: fmt.Sprintf("10.0.0.%d:8001", node+1)}}
		ln, err := u.Listen(ctx, ep)
		if err != nil {
			run.Fail("SIM.setup", "listen", "%v", err)
			return
		}
		name := fmt.Sprintf("%s/u%d@n%d", ep, i, node)
		srv := &http.Server{Handler: http.HandlerFunc(func(w http.ResponseWriter, r *http.Request) { io.WriteString(w, name) })}
		go srv.Serve(ln)
		ups = append(ups, up{ln, srv})
	}
	time.Sleep(3 * time.Second)
	dump := func(tag string) {
		for i, n := range nodes {
			if n == nil {
				continue
			}
			var parts []string
			for _, nd := range n.ClusterState().Nodes() {
				b, _ := json.Marshal(nd.Endpoints)
				parts = append(parts, fmt.Sprintf("%s:%s:%s", nd.ID, nd.Status, b))
			}
			sort.Strings(parts)
			run.Logf("%s view n%d: %s", tag, i, strings.Join(parts, " "))
		}
	}
	dump("settled")
	req := func(c, entry int, ep string) {
		r, _ := http.NewRequest("GET", fmt.Sprintf("http://10.0.0.%d:8000/x", entry+1), nil)
		r.Header.Set("x-piko-endpoint", ep)
		resp, err := hc.Do(r)
		if err != nil {
			run.Logf("c%d n%d %s err=%v", c, entry, ep, err)
			return
		}
		b, _ := io.ReadAll(resp.Body)
		resp.Body.Close()
		run.Logf("c%d n%d %s -> %d %s", c, entry, ep, resp.StatusCode, strings.TrimSpace(string(b)))
	}
	var wg sync.WaitGroup
	for c := 0; c < 6; c++ {
		wg.Add(1)
		go func(c int) {
			defer wg.Done()
			for j := 0; j < 4; j++ {
				req(c, (c+j)%3, fmt.Sprintf("e%d", (c*7+j)%4))
				time.Sleep(time.Duration(c+1) * 7 * time.Millisecond)
			}
		}(c)
	}
	wg.Wait()
	run.Logf("shutdown n1 begin")
	nodes[1].Shutdown()
	run.Logf("shutdown n1 done")
	nodes[1] = nil
	time.Sleep(5 * time.Second)
	dump("after-leave")
	for c := 0; c < 3; c++ {
		req(c, 0, "e1")
		req(c, 2, "e1")
	}
	time.Sleep(70 * time.Second)
	dump("after-expiry")
	for _, u := range ups {
		u.srv.Close()
		u.ln.Shutdown()
	}
	for _, n := range nodes {
		if n != nil {
			n.Shutdown()
		}
	}
	tr.CloseIdleConnections()
	run.Logf("end")
}
