"""Per-property orchestration parameters (budgets, batch sizes, evidence texts)."""

REAL_COMMON = ["piko packages under test (unmodified apart from the mechanical net.* -> simnet.* rewrite)"]
STUB_COMMON = ["OS sockets (verifsim/simnet)", "clock (testing/synctest bubble)",
               "goroutine choice, select order, map iteration order, math/rand (go1.26.8 runtime patched through -overlay)"]

H1_REAL = ["pkg/gossip: clusterState, codec (encode/decodeDigest/Delta), packetListener, streamListener, Gossip (gossip/join/leave), accrualFailureDetector, Watcher calls", "ugorji msgpack codec", "prometheus client"]

PROPS = {
    "SMOKE": dict(rule="kernel self-test workload; no oracle", batch=1, quick_budget=20, quick_runs=16,
                  real=["server.Server x3", "client.Upstream listeners"], stub=STUB_COMMON),
    "C02": dict(rule="driven gossip histories (PRNG-generated scripts of local writes, compactions, rounds, per-datagram deliver/drop/duplicate/late delivery, joins, leaves, late joiners; 2-6 nodes; max packet 150-1400). distinct = distinct (script hash, schedule hash, event-log hash); non-trivial = the run observed a partial (truncated/relayed) view, a truncated delta or a compaction",
                batch=40, quick_budget=40, thorough_budget=900, real=H1_REAL, stub=STUB_COMMON),
    "C03": dict(rule="as C02, followed by the settle phase: updates and faults stop, fair sweeps over all ordered pairs with reliable delivery must converge within (outstanding entries + unknown pairs + n^2 + 2) sweeps and every non-converged sweep must transfer something; plus the oversize-entry family. non-trivial as C02",
                batch=40, quick_budget=40, thorough_budget=900, real=H1_REAL, stub=STUB_COMMON),
    "C13": dict(rule="every datagram emitted by real code in driven histories is checked (size, whole msgpack values by an independent walker, version order, prefix of the intended delta, maximality); tiny packet sizes favoured. non-trivial as C02",
                batch=40, quick_budget=40, thorough_budget=900, real=H1_REAL, stub=STUB_COMMON),
    "C14": dict(rule="driven histories with a recording Watcher folded into a shadow view compared with Nodes()/Node(id) after every step; compaction-heavy with small packets. non-trivial as C02",
                batch=40, quick_budget=40, thorough_budget=900, real=H1_REAL, stub=STUB_COMMON),
    "C17": dict(rule="driven histories dominated by local upsert/delete/compact/leave (empty values, re-creation of deleted keys, repeated compaction, compaction after leave) checked against a last-write-wins reference map after every local write, then convergence of observers. non-trivial as C02",
                batch=40, quick_budget=40, thorough_budget=900, real=H1_REAL, stub=STUB_COMMON),
}
