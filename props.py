"""Per-property orchestration parameters (budgets, batch sizes, evidence texts)."""

REAL_COMMON = ["piko packages under test (unmodified apart from the mechanical net.* -> simnet.* rewrite)"]
STUB_COMMON = ["OS sockets (verifsim/simnet)", "clock (testing/synctest bubble)",
               "goroutine choice, select order, map iteration order, math/rand (go1.26.8 runtime patched through -overlay)"]

PROPS = {
    "SMOKE": dict(rule="kernel self-test workload; no oracle", batch=1, quick_budget=20, quick_runs=16,
                  real=["server.Server x3", "client.Upstream listeners"], stub=STUB_COMMON),
}
