"""Per-property orchestration parameters (budgets, batch sizes, evidence texts)."""

REAL_COMMON = ["piko packages under test (unmodified apart from the mechanical net.* -> simnet.* rewrite)"]
STUB_COMMON = ["OS sockets (verifsim/simnet)", "clock (testing/synctest bubble)",
               "goroutine choice, select order, map iteration order, math/rand (go1.26.8 runtime patched through -overlay)"]

H1_REAL = ["pkg/gossip: clusterState, codec (encode/decodeDigest/Delta), packetListener, streamListener, Gossip (gossip/join/leave), accrualFailureDetector, Watcher calls", "ugorji msgpack codec", "prometheus client"]

H2_REAL = ["pkg/gossip.Gossip", "server/gossip syncer (via NewGossip)", "server/cluster.State", "server/upstream.LoadBalancedManager", "ugorji msgpack codec", "prometheus client"]

H3_REAL = ["server.Server (NewServer/Start/Shutdown): proxy, upstream, admin servers, gossip, syncer, cluster state, manager", "client.Upstream listeners, client.Dialer", "pkg/websocket, yamux, gorilla/websocket, gin, net/http, httputil.ReverseProxy"]
H3_STUB = STUB_COMMON + ["upstream applications (harness HTTP/TCP servers behind real client listeners)", "TLS, DNS, remote JWKS: absent"]

PROPS = {
    "SMOKE": dict(rule="kernel self-test workload; no oracle", batch=1, quick_budget=20, quick_runs=16,
                  real=["server.Server x3", "client.Upstream listeners"], stub=STUB_COMMON),
    "C02": dict(claimed=True, engine="h1-gossipsim", level_text="seeded search over gossip histories: after every applied packet and every local write the real nodes' views are compared, rule by rule (authentic, bounded, prefix, hidden, monotone, own), against the write log derived from each owner's own state; thousands of distinct delivery orders, truncation points, losses, duplicates and relay paths per minute",
                rule="driven gossip histories (PRNG-generated scripts of local writes, compactions, rounds, per-datagram deliver/drop/duplicate/late delivery, joins, leaves, late joiners; 2-6 nodes; max packet 150-1400). distinct = distinct (script hash, schedule hash, event-log hash); non-trivial = the run observed a partial (truncated/relayed) view, a truncated delta or a compaction",
                batch=40, quick_budget=40, thorough_budget=900, real=H1_REAL, stub=STUB_COMMON),
    "C03": dict(claimed=True, engine="h1-gossipsim", level_text='seeded search: from arbitrary divergent states reached under loss, fair exchanges with reliable delivery must converge to exact equality of views within a stated sweep bound, and every non-converged sweep must make progress; oversized-entry family separates the recorded finding F1',
                rule="as C02, followed by the settle phase: updates and faults stop, fair sweeps over all ordered pairs with reliable delivery must converge within (outstanding entries + unknown pairs + n^2 + 2) sweeps and every non-converged sweep must transfer something; plus the oversize-entry family. non-trivial as C02",
                batch=40, quick_budget=40, thorough_budget=900, real=H1_REAL, stub=STUB_COMMON),
    "C13": dict(claimed=True, engine="h1-gossipsim", level_text='seeded search: every datagram real code emits is checked at the network seam for size, whole-value framing (independent msgpack walker), per-node version order, prefix-of-intent and maximality across packet sizes from a couple of entries to the default; hostile-input family feeds mutated/truncated/forged datagrams and streams',
                rule="every datagram emitted by real code in driven histories is checked (size, whole msgpack values by an independent walker, version order, prefix of the intended delta, maximality); tiny packet sizes favoured. non-trivial as C02",
                batch=40, quick_budget=40, thorough_budget=900, real=H1_REAL, stub=STUB_COMMON),
    "C14": dict(claimed=True, engine="h1-gossipsim", level_text="seeded search: a recording Watcher is folded into a shadow view and compared with the node's visible view after every step of histories rich in compaction, truncation and membership changes",
                rule="driven histories with a recording Watcher folded into a shadow view compared with Nodes()/Node(id) after every step; compaction-heavy with small packets. non-trivial as C02",
                batch=40, quick_budget=40, thorough_budget=900, real=H1_REAL, stub=STUB_COMMON),
    "C17": dict(claimed=True, engine="h1-gossipsim", level_text='seeded search over local write histories against a last-write-wins reference map (version freshness, no-op writes, compaction preserving live keys and order), followed by convergence of observers',
                rule="driven histories dominated by local upsert/delete/compact/leave (empty values, re-creation of deleted keys, repeated compaction, compaction after leave) checked against a last-write-wins reference map after every local write, then convergence of observers. non-trivial as C02",
                batch=40, quick_budget=40, thorough_budget=900, real=H1_REAL, stub=STUB_COMMON),
    "C11": dict(claimed=True, engine="h1-gossipsim", level_text="seeded search over membership histories: leave/crash/partition/heal/expiry/late joiners in every order, in the driven mode (every packet's fate scripted; re-learning attributed to the packet that taught it) and in the free-running mode (real tickers, detector and expiry under loss, duplication, reordering); left-sticky, left-no-relearn, left-expire, unreachable, recover, expire-stays and local rules",
                rule="driven family: scripts of rounds, per-datagram fates, leaves, crashes, clock advances, liveness evaluations and expiry sweeps; free-running family: 3-6 real nodes with real tickers at 20-100 ms, timed faults, then faults stop. non-trivial = the run contained a leave or a crash or observed a partial view",
                batch=8, quick_budget=45, thorough_budget=900, real=H1_REAL, stub=STUB_COMMON),
    "C12": dict(claimed=True, engine="h1-gossipsim", level_text="seeded search: the real accrual detector is fed by peer goroutines paced by the simulated clock (jitter, bursts, silences, removals, windows 1-64) and compared at arbitrary query instants with an exact reference over the recorded arrival instants (exact, accuracy, completeness, window rules); a free-running family checks the production wiring (report on every delta, threshold 20, window 50) against recorded delivery instants",
                rule="direct family: scripts of concurrent arrival bursts, silences, queries, removals, twin-history comparisons; free family as C11. non-trivial = the sample window wrapped at least once",
                batch=12, quick_budget=40, thorough_budget=900, real=H1_REAL, stub=STUB_COMMON),
    "C04": dict(claimed=True, engine="h2-routesim", level_text="seeded search: real gossip + syncer + routing table + registry per node; after every step, whenever an observer's gossip view has caught up with an owner, its routing table must equal what the owner advertises (addresses, endpoints, counts), statuses must follow the gossip flags, and every lookup result must be a remote, active advertiser; histories include endpoint churn, truncation, loss, relay, compaction, leave, crash, unreachable/reachable transitions, expiry and late joiners",
                rule="driven routing histories (scripts of upstream add/remove on owners, rounds, per-datagram fates, compaction, liveness, expiry, leave, crash, late joiners, plus targeted motifs). non-trivial = some observer caught up with some owner during the run",
                batch=40, quick_budget=40, thorough_budget=900, real=H2_REAL, stub=STUB_COMMON + ["upstream connections (fake Upstream values registered with the real manager)"]),
    "C05": dict(claimed=True, engine="h2-routesim", level_text="seeded search over registration histories (adds, removals, repeated and late removals with and without siblings) sequentially and from concurrent goroutines under the seeded scheduler with lock yields; at every quiescence registry = local routing entry = published gossip entries = ground truth",
                rule="driven family: scripts dominated by add/remove/duplicate-remove; concurrent family: 2-5 worker goroutines against real tickers. non-trivial = a late or repeated removal happened, or the run was concurrent",
                batch=40, quick_budget=40, thorough_budget=900, real=H2_REAL, stub=STUB_COMMON + ["upstream connections (fake Upstream values registered with the real manager)"]),
    "C15": dict(claimed=True, engine="h2-routesim", level_text="seeded search over add/remove/select histories on the real manager: every selection is checked for validity (registered for exactly that endpoint now), no remote when forwarding is disallowed, and fairness (any n consecutive selections of a stable set of n are distinct); a concurrent family checks validity under interleaving",
                rule="driven family: select-heavy scripts over 1-8 endpoints; concurrent family as C05. non-trivial = a full fairness window was checked",
                batch=40, quick_budget=40, thorough_budget=900, real=H2_REAL, stub=STUB_COMMON + ["upstream connections (fake Upstream values registered with the real manager)"]),
    "C01": dict(claimed=True, engine="h3-clustersim", level_text="seeded search over whole-system histories: 1-4 complete server nodes, up to 12 stamped upstream applications of several HTTP and TCP endpoints (near-miss names) placed on any node, requests through every entry node with every addressing mode, interleaved with upstream connect/disconnect/go-away/reset churn, gossip loss and partitions, node shutdowns and kills; every answer is checked against the addressed endpoint; after churn stops and routing information has settled every serving node must serve E iff some serving node holds an upstream for E (HTTP and TCP)",
                rule="scripts of listen/unlisten/http/tcp/wait/partition/heal/shutdown/kill; distinct = distinct (script, schedule, event log); non-trivial = at least one upstream application and one request",
                batch=6, quick_budget=45, thorough_budget=1200, real=H3_REAL, stub=H3_STUB),
    "C06": dict(claimed=True, engine="h3-clustersim", level_text="seeded search: inconsistent per-node routing views are produced by partitioning gossip (not proxy) links while upstreams move; a passive sniffer on the simulated network counts, per request id, the proxy-port connections it crossed: never more than two, exactly one when the entry node holds a local upstream, and a request that arrives already marked as forwarded is served locally or refused with 502",
                rule="as C01 with a partition-heavy profile and forwarded-marker probes; non-trivial as C01",
                batch=6, quick_budget=45, thorough_budget=1200, real=H3_REAL, stub=H3_STUB),
}

NOT_APPLICABLE = {}
